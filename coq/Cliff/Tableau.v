(* C13 — self-contained symplectic model of cirq/qis/clifford_tableau.py, written in the shape of the
   code (definitions only; proofs are in TableauProofs.v).

   A row of the tableau is a signed Pauli string: a sign bit r and one (x, z) pair per qubit,
   (1,0) = X, (0,1) = Z, (1,1) = Y (the Hermitian Y, as `_row_to_dense_pauli` reads it), value (-1)^r P.
   The tableau has 2n rows (destabilizers, then stabilizers); the scratch row 2n of the code is a local
   value of `measure`.  Every `apply_*` of the code updates column `axis` of all rows by the same local
   function of (x, z, r) — resp. (xc, zc, xt, zt, r) — so a rule is a function on those tuples. *)
From Coq Require Import List Bool ZArith Arith.
Import ListNotations.

Definition loc1 := (bool * bool * bool)%type.                 (* x, z, r *)
Definition loc2 := (bool * bool * bool * bool * bool)%type.   (* xc, zc, xt, zt, r *)
Definition pbit := (bool * bool)%type.
Record prow := mkRow { rbits : list pbit; rsign : bool }.
Definition tableau := list prow.

Definition all8 : list loc1 :=
  flat_map (fun x => flat_map (fun z => map (fun r => (x, z, r)) [false; true]) [false; true]) [false; true].
Definition all32 : list loc2 :=
  flat_map (fun xc => flat_map (fun zc => flat_map (fun xt => flat_map (fun zt =>
    map (fun r => (xc, zc, xt, zt, r)) [false; true]) [false; true]) [false; true]) [false; true]) [false; true].

(* ---- exponents.  The harness hands exponents as q = 4 * exponent (an integer: all tested exponents are
   multiples of 1/4).  `exponent % 2 == 0` is q mod 8 = 0; `exponent % 0.5 != 0` is q odd;
   `exponent % 1 != 0` is q mod 4 <> 0; the effective exponent times two is (q mod 8) / 2. *)
Inductive expo := ENone (* return unchanged *) | EErr (* ValueError *) | EEff (e : Z) (* effective exponent * 2 *).
Definition expo_half (q : Z) : expo :=          (* apply_x / apply_y / apply_z *)
  if (q mod 8 =? 0)%Z then ENone else if (q mod 2 =? 0)%Z then EEff ((q mod 8) / 2)%Z else EErr.
Definition expo_int (q : Z) : expo :=           (* apply_h / apply_cz / apply_cx *)
  if (q mod 8 =? 0)%Z then ENone else if (q mod 4 =? 0)%Z then EEff 2%Z else EErr.

(* ---- the local rules, statement by statement as in the code ---- *)
Definition rule_x (e : Z) (p : loc1) : loc1 :=
  let '(x, z, r) := p in
  match e with
  | 1%Z => let x1 := xorb x z in                 (* xs ^= zs *)
           (x1, z, xorb r (x1 && z))             (* rs ^= xs & zs *)
  | 2%Z => (x, z, xorb r z)                      (* rs ^= zs *)
  | 3%Z => let r1 := xorb r (x && z) in          (* rs ^= xs & zs *)
           (xorb x z, z, r1)                     (* xs ^= zs *)
  | _ => p
  end.
Definition rule_y (e : Z) (p : loc1) : loc1 :=
  let '(x, z, r) := p in
  match e with
  | 1%Z => (z, x, xorb r (x && negb z))          (* rs ^= xs & ~zs ; swap *)
  | 2%Z => (x, z, xorb r (xorb x z))             (* rs ^= xs ^ zs *)
  | 3%Z => (z, x, xorb r (negb x && z))          (* rs ^= ~xs & zs ; swap *)
  | _ => p
  end.
Definition rule_z (e : Z) (p : loc1) : loc1 :=
  let '(x, z, r) := p in
  match e with
  | 1%Z => (x, xorb z x, xorb r (x && z))        (* rs ^= xs & zs ; zs ^= xs *)
  | 2%Z => (x, z, xorb r x)                      (* rs ^= xs *)
  | 3%Z => (x, xorb z x, xorb r (x && negb z))   (* rs ^= xs & ~zs ; zs ^= xs *)
  | _ => p
  end.
Definition rule_h (p : loc1) : loc1 := rule_x 2 (rule_y 1 p).   (* apply_y(axis, 0.5); apply_x(axis) *)
Definition rule_cx (p : loc2) : loc2 :=
  let '(xc, zc, xt, zt, r) := p in
  let r1 := xorb r (xc && zt && negb (xorb xt zc)) in
  (xc, xorb zc zt, xorb xt xc, zt, r1).
Definition rule_cz (p : loc2) : loc2 :=
  let '(xc, zc, xt, zt, r) := p in
  let '(xt, zt) := (zt, xt) in                              (* swap target x/z *)
  let r := xorb r (xt && zt) in
  let r := xorb r (xc && zt && negb (xorb xt zc)) in
  let xt := xorb xt xc in
  let zc := xorb zc zt in
  let '(xt, zt) := (zt, xt) in
  let r := xorb r (xt && zt) in
  (xc, zc, xt, zt, r).
Definition flip2 (p : loc2) : loc2 := let '(xc, zc, xt, zt, r) := p in (xt, zt, xc, zc, r).
(* StabilizerSimulationState._swap: cx(c,t); cx(t,c, exponent); cx(c,t) *)
Definition rule_swap (odd : bool) (p : loc2) : loc2 :=
  let p1 := rule_cx p in
  let p2 := if odd then flip2 (rule_cx (flip2 p1)) else p1 in
  rule_cx p2.

(* ---- rows and tableaux ---- *)
Fixpoint set_nth {A} (l : list A) (a : nat) (v : A) : list A :=
  match l, a with
  | [], _ => []
  | _ :: r, O => v :: r
  | x :: r, S a' => x :: set_nth r a' v
  end.
Definition bit_at (row : prow) (a : nat) : pbit := nth a (rbits row) (false, false).
Definition row_apply1 (f : loc1 -> loc1) (a : nat) (row : prow) : prow :=
  let '(x, z) := bit_at row a in
  let '(x', z', r') := f (x, z, rsign row) in
  mkRow (set_nth (rbits row) a (x', z')) r'.
Definition row_apply2 (f : loc2 -> loc2) (c t : nat) (row : prow) : prow :=
  let '(xc, zc) := bit_at row c in
  let '(xt, zt) := bit_at row t in
  let '(xc', zc', xt', zt', r') := f (xc, zc, xt, zt, rsign row) in
  mkRow (set_nth (set_nth (rbits row) c (xc', zc')) t (xt', zt')) r'.
Definition tab_apply1 f a (t : tableau) : tableau := map (row_apply1 f a) t.
Definition tab_apply2 f c x (t : tableau) : tableau := map (row_apply2 f c x) t.

(* The gates of the stabilizer vocabulary, exponent as q = 4 * exponent. *)
Inductive cgate :=
| CX_ (q : Z) (a : nat) | CY_ (q : Z) (a : nat) | CZ_ (q : Z) (a : nat) | CH_ (q : Z) (a : nat)
| CCZ_ (q : Z) (c t : nat) | CCX_ (q : Z) (c t : nat) | CSWAP_ (q : Z) (c t : nat) | CPhase_.

Definition with_half (q : Z) (f : Z -> loc1 -> loc1) (a : nat) (t : tableau) : option tableau :=
  match expo_half q with ENone => Some t | EErr => None | EEff e => Some (tab_apply1 (f e) a t) end.
Definition with_int1 (q : Z) (f : loc1 -> loc1) (a : nat) (t : tableau) : option tableau :=
  match expo_int q with ENone => Some t | EErr => None | EEff _ => Some (tab_apply1 f a t) end.
Definition with_int2 (q : Z) (f : loc2 -> loc2) (c x : nat) (t : tableau) : option tableau :=
  match expo_int q with ENone => Some t | EErr => None | EEff _ => Some (tab_apply2 f c x t) end.
Definition apply_gate (g : cgate) (t : tableau) : option tableau :=
  match g with
  | CX_ q a => with_half q rule_x a t
  | CY_ q a => with_half q rule_y a t
  | CZ_ q a => with_half q rule_z a t
  | CH_ q a => with_int1 q rule_h a t
  | CCZ_ q c x => with_int2 q rule_cz c x t
  | CCX_ q c x => with_int2 q rule_cx c x t
  | CSWAP_ q c x =>                               (* `exponent % 1 != 0` raises; an even exponent still runs cx;cx *)
      if (q mod 4 =? 0)%Z then Some (tab_apply2 (rule_swap (negb (q mod 8 =? 0)%Z)) c x t) else None
  | CPhase_ => Some t                             (* apply_global_phase: pass *)
  end.
Fixpoint apply_gates (gs : list cgate) (t : tableau) : option tableau :=
  match gs with
  | [] => Some t
  | g :: r => match apply_gate g t with Some t' => apply_gates r t' | None => None end
  end.

(* CliffordTableau(n, initial_state): X_i, then Z_i with sign = bit i of the initial state *)
Definition unit_bits (n i : nat) (p : pbit) : list pbit :=
  map (fun j => if Nat.eqb i j then p else (false, false)) (seq 0 n).
Definition init_tableau (n : nat) (bits : list bool) : tableau :=
  map (fun i => mkRow (unit_bits n i (true, false)) false) (seq 0 n) ++
  map (fun i => mkRow (unit_bits n i (false, true)) (nth i bits false)) (seq 0 n).

(* ---- _rowsum ---- *)
Definition g_fun (x1 z1 x2 z2 : bool) : Z :=
  match x1, z1 with
  | false, false => 0
  | true, true => Z.b2z z2 - Z.b2z x2
  | true, false => Z.b2z z2 * (2 * Z.b2z x2 - 1)
  | false, true => Z.b2z x2 * (1 - 2 * Z.b2z z2)
  end%Z.
Definition all16 : list (bool * bool * bool * bool) :=
  flat_map (fun a => flat_map (fun b => flat_map (fun c => map (fun d => (a, b, c, d)) [false; true])
    [false; true]) [false; true]) [false; true].
Fixpoint g_sum (b2 b1 : list pbit) : Z :=          (* sum_j g(x2_j, z2_j, x1_j, z1_j) *)
  match b2, b1 with
  | (x2, z2) :: r2, (x1, z1) :: r1 => (g_fun x2 z2 x1 z1 + g_sum r2 r1)%Z
  | _, _ => 0%Z
  end.
Fixpoint xor_bits (a b : list pbit) : list pbit :=
  match a, b with
  | (x1, z1) :: r1, (x2, z2) :: r2 => (xorb x1 x2, xorb z1 z2) :: xor_bits r1 r2
  | _, _ => []
  end.
(* _rowsum(q1, q2): row q1 := row q1 * row q2 *)
Definition rowsum (h1 h2 : prow) : prow :=
  let r := ((2 * Z.b2z (rsign h1) + 2 * Z.b2z (rsign h2) + g_sum (rbits h2) (rbits h1)) mod 4)%Z in
  mkRow (xor_bits (rbits h1) (rbits h2)) (negb (r =? 0)%Z).

(* ---- _measure(q, prng), the random bit supplied explicitly.  Result: new tableau, outcome, and
   whether prng.randint was called. ---- *)
Fixpoint find_from {A} (f : A -> bool) (l : list A) (k : nat) : option nat :=
  match l with
  | [] => None
  | x :: r => if f x then Some k else find_from f r (S k)
  end.
Definition x_at (q : nat) (row : prow) : bool := fst (bit_at row q).
Definition zero_row (n : nat) : prow := mkRow (repeat (false, false) n) false.
Definition measure (n q : nat) (bit : bool) (t : tableau) : tableau * bool * bool :=
  match find_from (x_at q) (skipn n t) n with
  | None =>
      let scratch := fold_left (fun acc i =>
                       if x_at q (nth i t (zero_row n)) then rowsum acc (nth (n + i) t (zero_row n)) else acc)
                     (seq 0 n) (zero_row n) in
      (t, rsign scratch, false)
  | Some p =>
      let rp := nth p t (zero_row n) in
      let t1 := map (fun ir => if negb (Nat.eqb (fst ir) p) && x_at q (snd ir) then rowsum (snd ir) rp else snd ir)
                    (combine (seq 0 (length t)) t) in
      let t2 := set_nth t1 (p - n) (nth p t1 (zero_row n)) in
      let t3 := set_nth t2 p (mkRow (unit_bits n q (false, true)) bit) in
      (t3, bit, true)
  end.

(* ---- then / inverse, with the integer matrices of the code ---- *)
Open Scope Z_scope.
Definition zvec := list Z.
Definition zmat := list (list Z).
Definition zdot (a b : zvec) : Z := fold_right Z.add 0 (map (fun p => fst p * snd p) (combine a b)).
Definition zcol (m : zmat) (j : nat) : zvec := map (fun r => nth j r 0) m.
Definition ztrans (m : zmat) (ncols : nat) : zmat := map (zcol m) (seq 0 ncols).
Definition zmmul (a b : zmat) (bcols : nat) : zmat :=
  let bt := ztrans b bcols in map (fun r => map (zdot r) bt) a.
Definition zmvec (a : zmat) (v : zvec) : zvec := map (fun r => zdot r v) a.
Definition zmod2 (m : zmat) : zmat := map (map (fun x => x mod 2)) m.
Definition tab_matrix (t : tableau) : zmat :=          (* matrix(): [xs | zs] as 0/1 integers *)
  map (fun row => map (fun p => Z.b2z (fst p)) (rbits row) ++ map (fun p => Z.b2z (snd p)) (rbits row)) t.
Definition num_ys (n : nat) (m : zmat) : zvec :=        (* sum(m[:, :n] * m[:, n:], axis=1) *)
  map (fun r => zdot (firstn n r) (skipn n r)) m.
Definition ztril1 (m : zmat) : zmat :=                   (* np.tril(m, -1) *)
  map (fun ir => map (fun jx => if Nat.ltb (fst jx) (fst ir) then snd jx else 0)
                     (combine (seq 0 (length (snd ir))) (snd ir)))
      (combine (seq 0 (length m)) m).
Definition zouter (a b : zvec) : zmat := map (fun x => map (fun y => x * y) b) a.
Definition zmadd (a b : zmat) : zmat := map (fun p => map (fun q => fst q + snd q) (combine (fst p) (snd p))) (combine a b).
Definition zdiag (m : zmat) : zvec := map (fun ir => nth (fst ir) (snd ir) 0) (combine (seq 0 (length m)) m).
Definition lmbda (n : nat) : zmat :=
  map (fun i => map (fun j => if Nat.ltb i n && Nat.eqb j (n + i) then 1 else 0) (seq 0 (2 * n))) (seq 0 (2 * n)).
Definition zvadd (a b : zvec) : zvec := map (fun p => fst p + snd p) (combine a b).
Definition zvmul (a b : zvec) : zvec := map (fun p => fst p * snd p) (combine a b).

Definition tab_of_matrix (n : nat) (m : zmat) (signs : zvec) : tableau :=
  map (fun rs => let r := fst rs in
         mkRow (map (fun j => (negb (nth j r 0 =? 0), negb (nth (n + j)%nat r 0 =? 0))) (seq 0 n)) (negb (snd rs =? 0)))
      (combine m signs).

Definition tab_then (n : nat) (t1 t2 : tableau) : tableau :=
  let N := (2 * n)%nat in
  let m1 := tab_matrix t1 in let m2 := tab_matrix t2 in
  let ys1 := num_ys n m1 in let ys2 := num_ys n m2 in
  let p1 := map (fun x => x mod 2) ys1 in let p2 := map (fun x => x mod 2) ys2 in
  let s1 := zvadd (map (fun r => Z.b2z (rsign r)) t1) (map (fun x => (x mod 4) / 2) ys1) in
  let s2 := zvadd (map (fun r => Z.b2z (rsign r)) t2) (map (fun x => (x mod 4) / 2) ys2) in
  let m12 := zmod2 (zmmul m1 m2 N) in
  let m1p2 := zmvec m1 p2 in
  let p12 := map (fun x => x mod 2) (zvadd p1 m1p2) in
  let inner := ztril1 (zmadd (zouter p2 p2) (zmmul (zmmul m2 (lmbda n) N) (ztrans m2 N) N)) in
  let quad := zdiag (zmmul (zmmul m1 inner N) (ztrans m1 N) N) in
  let s12 := zvadd (zvadd (zvadd s1 (zmvec m1 s2)) (zvmul p1 m1p2)) quad in
  let ys12 := num_ys n m12 in
  let sign := map (fun t => let '(p, s, y) := t in ((p + 2 * s - y) mod 4) / 2)
                  (combine (combine p12 s12) ys12) in
  tab_of_matrix n m12 sign.

(* inverse(): blocks transposed and exchanged, signs from ret.then(self) *)
Definition tab_inverse (n : nat) (t : tableau) : tableau :=
  let xs := map (fun row => map fst (rbits row)) t in
  let zs := map (fun row => map snd (rbits row)) t in
  let colb (m : list (list bool)) (j : nat) := map (fun r => nth j r false) m in
  let tr (m : list (list bool)) := map (colb m) (seq 0 n) in
  let top (m : list (list bool)) := firstn n m in
  let bot (m : list (list bool)) := skipn n m in
  let rx := tr (bot zs) ++ tr (bot xs) in
  let rz := tr (top zs) ++ tr (top xs) in
  let ret := map (fun p => mkRow (combine (fst p) (snd p)) false) (combine rx rz) in
  map (fun p => mkRow (rbits (fst p)) (rsign (snd p))) (combine ret (tab_then n ret t)).

(* _validate(): table^T . J . table = J (mod 2) *)
Definition skew (n : nat) : zmat :=
  map (fun i => map (fun j => if Nat.eqb j ((i + n) mod (2 * n)) then 1 else 0) (seq 0 (2 * n))) (seq 0 (2 * n)).
Definition zmat_eqb (a b : zmat) : bool :=
  (fix go (a b : zmat) := match a, b with
     | [], [] => true
     | x :: a', y :: b' => (fix gv (x y : zvec) := match x, y with
                              | [], [] => true | u :: x', w :: y' => (u =? w) && gv x' y' | _, _ => false end) x y && go a' b'
     | _, _ => false end) a b.
Definition tab_validate (n : nat) (t : tableau) : bool :=
  let N := (2 * n)%nat in
  let m := tab_matrix t in
  zmat_eqb (zmod2 (zmmul (zmmul (ztrans m N) (skew n) N) m N)) (skew n).
Close Scope Z_scope.

(* equality of tableaux, for the harness *)
Definition pbit_eqb (a b : pbit) : bool := Bool.eqb (fst a) (fst b) && Bool.eqb (snd a) (snd b).
Fixpoint bits_eqb (a b : list pbit) : bool :=
  match a, b with
  | [], [] => true
  | x :: a', y :: b' => pbit_eqb x y && bits_eqb a' b'
  | _, _ => false
  end.
Definition row_eqb (a b : prow) : bool := bits_eqb (rbits a) (rbits b) && Bool.eqb (rsign a) (rsign b).
Fixpoint tab_eqb (a b : tableau) : bool :=
  match a, b with
  | [], [] => true
  | x :: a', y :: b' => row_eqb x y && tab_eqb a' b'
  | _, _ => false
  end.
Definition otab_eqb (a b : option tableau) : bool :=
  match a, b with Some x, Some y => tab_eqb x y | None, None => true | _, _ => false end.
Definition loc1_eqb (a b : loc1) : bool :=
  let '(x, z, r) := a in let '(x', z', r') := b in Bool.eqb x x' && Bool.eqb z z' && Bool.eqb r r'.
Definition loc2_eqb (a b : loc2) : bool :=
  let '(a1, a2, a3, a4, a5) := a in let '(b1, b2, b3, b4, b5) := b in
  Bool.eqb a1 b1 && Bool.eqb a2 b2 && Bool.eqb a3 b3 && Bool.eqb a4 b4 && Bool.eqb a5 b5.

(* ---- what the regenerated tables must be (TableauProofs.v proves the generated data equal to this) ---- *)
Definition qs_tested : list Z := map (fun k => (Z.of_nat k - 9)%Z) (seq 0 27).      (* q = 4*exponent, -9..17 *)
Definition model_half (f : Z -> loc1 -> loc1) (q : Z) : option (list loc1) :=
  match expo_half q with ENone => Some all8 | EErr => None | EEff e => Some (map (f e) all8) end.
Definition model_int1 (f : loc1 -> loc1) (q : Z) : option (list loc1) :=
  match expo_int q with ENone => Some all8 | EErr => None | EEff _ => Some (map f all8) end.
Definition model_int2 (f : loc2 -> loc2) (q : Z) : option (list loc2) :=
  match expo_int q with ENone => Some all32 | EErr => None | EEff _ => Some (map f all32) end.
Definition model_swap (q : Z) : option (list loc2) :=
  if (q mod 4 =? 0)%Z then Some (map (rule_swap (negb (q mod 8 =? 0)%Z)) all32) else None.
Definition pbits1 : list pbit := [(false, false); (false, true); (true, false); (true, true)].
Fixpoint bits_n (n : nat) : list (list pbit) :=
  match n with O => [[]] | S m => flat_map (fun p => map (cons p) (bits_n m)) pbits1 end.
Definition rows_n (n : nat) : list prow := flat_map (fun b => [mkRow b false; mkRow b true]) (bits_n n).
Definition model_rowsum (n : nat) : list (prow * prow * prow) :=
  flat_map (fun h1 => map (fun h2 => (h1, h2, rowsum h1 h2)) (rows_n n)) (rows_n n).
