(* C13 — the meaning of the model's gate vocabulary (definitions only): each `cgate` of Tableau.v, with the
   phase of its global shift, as a matrix of Gates/GateSpecs.v acting on its axes together with the tableau rule. *)
From Coq Require Import List Bool ZArith Arith.
From VF Require Import Base.RingOps Base.Mat Base.Tensor Gates.GateSpecs Cliff.Tableau Cliff.TableauSem.
Import ListNotations.

Section Circuit.
  Context {K : Type} (O : Ops K).
  Notation z0 := (k0 O). Notation z1 := (k1 O).
  (* ---- the meaning of the model's gate vocabulary: for q = 4 * exponent (exponent t = q/4) the unit of
     GateSpecs is r = exp(i pi t / 2) = zeta^(q/2); ph = exp(i pi t s) is the global-shift phase. ---- *)
  Definition e_of (q : Z) : nat := Z.to_nat ((q / 2) mod 8).
  Definition sem_of (g : cgate) (ph : K) : option lgate :=
    match g with
    | CX_ q a => if (q mod 2 =? 0)%Z then Some (L1 (gate_x O (e_of q) ph) (rule_x (eff (e_of q))) a) else None
    | CY_ q a => if (q mod 2 =? 0)%Z then Some (L1 (gate_y O (e_of q) ph) (rule_y (eff (e_of q))) a) else None
    | CZ_ q a => if (q mod 2 =? 0)%Z then Some (L1 (gate_z O (e_of q) ph) (rule_z (eff (e_of q))) a) else None
    | CH_ q a => if (q mod 4 =? 0)%Z
                 then Some (L1 (gate_h O (e_of q) ph) (fun p => if odd_e (e_of q) then rule_h p else p) a) else None
    | CCZ_ q c t => if (q mod 4 =? 0)%Z
                    then Some (L2 (gate_cz O (e_of q) ph) (fun p => if odd_e (e_of q) then rule_cz p else p) c t) else None
    | CCX_ q c t => if (q mod 4 =? 0)%Z
                    then Some (L2 (gate_cx O (e_of q) ph) (fun p => if odd_e (e_of q) then rule_cx p else p) c t) else None
    | CSWAP_ q c t => if (q mod 4 =? 0)%Z
                      then Some (L2 (gate_swap O (e_of q) ph) (rule_swap (odd_e (e_of q))) c t) else None
    | CPhase_ => Some (L1 (mk2 ph z0 z0 ph) (fun p => p) 0)
    end.
  Definition axes_ok (n : nat) (g : cgate) : Prop :=
    match g with
    | CX_ _ a | CY_ _ a | CZ_ _ a | CH_ _ a => a < n
    | CCZ_ _ c t | CCX_ _ c t | CSWAP_ _ c t => c < n /\ t < n /\ c <> t
    | CPhase_ => 0 < n
    end.
  Fixpoint sem_circuit (gs : list (cgate * K)) : option (list lgate) :=
    match gs with
    | [] => Some []
    | (g, ph) :: r => match sem_of g ph, sem_circuit r with
                      | Some l, Some ls => Some (l :: ls)
                      | _, _ => None
                      end
    end.
End Circuit.
