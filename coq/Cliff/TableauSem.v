(* C13 — what a tableau row means (definitions only): signed Pauli matrices over the generic ring, the
   Clifford gates at half-integer exponents as instances of the documented matrices of Gates/GateSpecs.v,
   and the action of a signed Pauli string on n-qubit states (Base/Tensor.v). *)
From Coq Require Import List Bool ZArith Arith.
From VF Require Import Base.RingOps Base.Mat Base.Tensor Gates.GateSpecs Cliff.Tableau.
Import ListNotations.

Section Sem.
  Context {K : Type} (O : Ops K).
  Infix "+" := (kadd O). Infix "*" := (kmul O). Infix "-" := (ksub O).
  Notation z0 := (k0 O). Notation z1 := (k1 O). Notation ii := (ki O). Notation s2 := (ks2 O).

  Definition sgn (r : bool) : K := if r then kopp O z1 else z1.
  (* (1,0) = X, (0,1) = Z, (1,1) = Y *)
  Definition pm (p : pbit) : matrix :=
    match p with
    | (false, false) => mid O 2
    | (true, false) => pauli_mat O 0
    | (true, true) => pauli_mat O 1
    | (false, true) => pauli_mat O 2
    end.
  Definition pms1 (l : loc1) : matrix := let '(x, z, r) := l in mscale O (sgn r) (pm (x, z)).
  Definition pms2 (l : loc2) : matrix :=
    let '(xc, zc, xt, zt, r) := l in mscale O (sgn r) (kron O (pm (xc, zc)) (pm (xt, zt))).

  (* zeta = exp(i pi / 4) = (1 + i)/sqrt 2 and its inverse: for an exponent t = e/2 the unit of GateSpecs is
     r = exp(i pi t / 2) = zeta^e *)
  Definition zeta : K := s2 * (z1 + ii).
  Definition zetac : K := s2 * (z1 - ii).
  Definition gate_x (e : nat) (g : K) : matrix := spec_XPow O (kpow O zeta e) (kpow O zetac e) g.
  Definition gate_y (e : nat) (g : K) : matrix := spec_YPow O (kpow O zeta e) (kpow O zetac e) g.
  Definition gate_z (e : nat) (g : K) : matrix := spec_ZPow O (kpow O zeta e) (kpow O zetac e) g.
  Definition gate_h (e : nat) (g : K) : matrix := spec_HPow O (kpow O zeta e) (kpow O zetac e) g.
  Definition gate_cz (e : nat) (g : K) : matrix := spec_CZPow O (kpow O zeta e) (kpow O zetac e) g.
  Definition gate_cx (e : nat) (g : K) : matrix := spec_CXPow O (kpow O zeta e) (kpow O zetac e) g.
  Definition gate_swap (e : nat) (g : K) : matrix := spec_SwapPow O (kpow O zeta e) (kpow O zetac e) g.
  (* the inverse gate: exponent -t, shift phase inverted *)
  Definition gate_x_inv (e : nat) (gc : K) : matrix := spec_XPow O (kpow O zetac e) (kpow O zeta e) gc.
  Definition gate_y_inv (e : nat) (gc : K) : matrix := spec_YPow O (kpow O zetac e) (kpow O zeta e) gc.
  Definition gate_z_inv (e : nat) (gc : K) : matrix := spec_ZPow O (kpow O zetac e) (kpow O zeta e) gc.
  Definition gate_h_inv (e : nat) (gc : K) : matrix := spec_HPow O (kpow O zetac e) (kpow O zeta e) gc.
  Definition gate_cz_inv (e : nat) (gc : K) : matrix := spec_CZPow O (kpow O zetac e) (kpow O zeta e) gc.
  Definition gate_cx_inv (e : nat) (gc : K) : matrix := spec_CXPow O (kpow O zetac e) (kpow O zeta e) gc.
  Definition gate_swap_inv (e : nat) (gc : K) : matrix := spec_SwapPow O (kpow O zetac e) (kpow O zeta e) gc.

  (* effective exponent (times two) of the rule for e = 2 * exponent *)
  Definition eff (e : nat) : Z := Z.of_nat (e mod 4).
  Definition odd_e (e : nat) : bool := Nat.eqb (e mod 4) 2.       (* e = 2t with t an odd integer *)


  (* what rule_is_conjugation_G states of a gate G with claimed inverse Ginv and local rule f:
     G P = f(P) G,  G P Ginv = f(P)  (signs included),  G Ginv = 1 *)
  Definition conj1_ok (G Ginv : matrix) (f : loc1 -> loc1) : Prop :=
    (forall p, mmul O G (pms1 p) = mmul O (pms1 (f p)) G) /\
    (forall p, mmul O (mmul O G (pms1 p)) Ginv = pms1 (f p)) /\
    mmul O G Ginv = mid O 2.
  Definition conj2_ok (G Ginv : matrix) (f : loc2 -> loc2) : Prop :=
    (forall p, mmul O G (pms2 p) = mmul O (pms2 (f p)) G) /\
    (forall p, mmul O (mmul O G (pms2 p)) Ginv = pms2 (f p)) /\
    mmul O G Ginv = mid O 4.
  Definition evens : list nat := [0; 2; 4; 6].       (* e = 2t for integer exponents t *)

  (* ---- the action of a signed Pauli string on an n-qubit state (index digits 0/1, one per qubit):
     (P psi)(i) = sign * prod_j c(P_j, i_j) * psi(i with the digits at the X/Y positions flipped),
     i.e. row b of the Pauli matrix has its only entry c(p, b) in column b xor x. ---- *)
  Definition fl (x : bool) (d : nat) : nat := if x then match d with 0 => 1 | _ => 0 end else d.
  Definition c1 (p : pbit) (d : nat) : K :=
    match p with
    | (false, false) => z1
    | (true, false) => z1
    | (false, true) => match d with 0 => z1 | _ => kopp O z1 end
    | (true, true) => match d with 0 => kopp O ii | _ => ii end
    end.
  Fixpoint coef (P : list pbit) (i : idx) : K :=
    match P, i with
    | p :: P', d :: i' => c1 p d * coef P' i'
    | _, _ => z1
    end.
  Fixpoint xflip (P : list pbit) (i : idx) : idx :=
    match P, i with
    | p :: P', d :: i' => fl (fst p) d :: xflip P' i'
    | _, _ => i
    end.
  Definition pauli_act (row : prow) (psi : tensor (K:=K)) : tensor :=
    fun i => sgn (rsign row) * (coef (rbits row) i * psi (xflip (rbits row) i)).

  (* well-formed n-qubit index *)
  Definition wf (n : nat) (i : idx) : Prop := length i = n /\ Forall (fun d => d < 2) i.

  (* a gate of a Clifford circuit with its matrix, its local tableau rule and its axes *)
  Inductive lgate :=
  | L1 (G : matrix (K:=K)) (f : loc1 -> loc1) (a : nat)
  | L2 (G : matrix (K:=K)) (f : loc2 -> loc2) (c t : nat).
  Definition lg_rop (g : lgate) : rop (K:=K) :=
    match g with
    | L1 G _ a => {| rop_m := G; rop_dims := [2]; rop_ax := [a] |}
    | L2 G _ c t => {| rop_m := G; rop_dims := [2; 2]; rop_ax := [c; t] |}
    end.
  Definition lg_row (g : lgate) (row : prow) : prow :=
    match g with
    | L1 _ f a => row_apply1 f a row
    | L2 _ f c t => row_apply2 f c t row
    end.
  Definition lg_tab (g : lgate) (t : tableau) : tableau := map (lg_row g) t.
  Definition mk2 (a b c d : K) : matrix := [[a; b]; [c; d]].
  Definition mk4 (r0 r1 r2 r3 : K * K * K * K) : matrix :=
    map (fun r => let '(a, b, c, d) := r in [a; b; c; d]) [r0; r1; r2; r3].
  (* the gate is a 2x2 (4x4) matrix that intertwines every signed Pauli with its image under the rule,
     and its axes are distinct positions below n *)
  Definition lg_ok (n : nat) (g : lgate) : Prop :=
    match g with
    | L1 G f a => (exists a0 a1 a2 a3, G = mk2 a0 a1 a2 a3) /\ a < n /\
                  forall p, mmul O G (pms1 p) = mmul O (pms1 (f p)) G
    | L2 G f c t => (exists r0 r1 r2 r3, G = mk4 r0 r1 r2 r3) /\ c < n /\ t < n /\ c <> t /\
                    forall p, mmul O G (pms2 p) = mmul O (pms2 (f p)) G
    end.
  (* computational basis state |bits> *)
  Definition b2n (b : bool) : nat := if b then 1 else 0.
  Fixpoint idx_eqb (a b : idx) : bool :=
    match a, b with
    | [], [] => true
    | x :: a', y :: b' => Nat.eqb x y && idx_eqb a' b'
    | _, _ => false
    end.
  Definition ket (bits : list bool) : tensor (K:=K) := fun i => if idx_eqb i (map b2n bits) then z1 else z0.
End Sem.
