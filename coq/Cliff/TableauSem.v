(* C13 — what a tableau row means (definitions only): signed Pauli matrices over the generic ring, the
   Clifford gates at half-integer exponents as instances of the documented matrices of Gates/GateSpecs.v,
   and the action of a signed Pauli string on n-qubit states (Base/Tensor.v). *)
From Coq Require Import List Bool ZArith Arith.
From VF Require Import Base.RingOps Base.Mat Base.Tensor Gates.GateSpecs Cliff.Tableau.
Import ListNotations.

Section Sem.
  Context {K : Type} (O : Ops K).
  Infix "+" := (kadd O). Infix "*" := (kmul O). Infix "-" := (ksub O).
  Notation z0 := (k0 O). Notation z1 := (k1 O). Notation ii := (ki O). Notation s2 := (ks2 O).

  Definition sgn (r : bool) : K := if r then kopp O z1 else z1.
  (* (1,0) = X, (0,1) = Z, (1,1) = Y *)
  Definition pm (p : pbit) : matrix :=
    match p with
    | (false, false) => mid O 2
    | (true, false) => pauli_mat O 0
    | (true, true) => pauli_mat O 1
    | (false, true) => pauli_mat O 2
    end.
  Definition pms1 (l : loc1) : matrix := let '(x, z, r) := l in mscale O (sgn r) (pm (x, z)).
  Definition pms2 (l : loc2) : matrix :=
    let '(xc, zc, xt, zt, r) := l in mscale O (sgn r) (kron O (pm (xc, zc)) (pm (xt, zt))).

  (* zeta = exp(i pi / 4) = (1 + i)/sqrt 2 and its inverse: for an exponent t = e/2 the unit of GateSpecs is
     r = exp(i pi t / 2) = zeta^e *)
  Definition zeta : K := s2 * (z1 + ii).
  Definition zetac : K := s2 * (z1 - ii).
  Definition gate_x (e : nat) (g : K) : matrix := spec_XPow O (kpow O zeta e) (kpow O zetac e) g.
  Definition gate_y (e : nat) (g : K) : matrix := spec_YPow O (kpow O zeta e) (kpow O zetac e) g.
  Definition gate_z (e : nat) (g : K) : matrix := spec_ZPow O (kpow O zeta e) (kpow O zetac e) g.
  Definition gate_h (e : nat) (g : K) : matrix := spec_HPow O (kpow O zeta e) (kpow O zetac e) g.
  Definition gate_cz (e : nat) (g : K) : matrix := spec_CZPow O (kpow O zeta e) (kpow O zetac e) g.
  Definition gate_cx (e : nat) (g : K) : matrix := spec_CXPow O (kpow O zeta e) (kpow O zetac e) g.
  Definition gate_swap (e : nat) (g : K) : matrix := spec_SwapPow O (kpow O zeta e) (kpow O zetac e) g.
  (* the inverse gate: exponent -t, shift phase inverted *)
  Definition gate_x_inv (e : nat) (gc : K) : matrix := spec_XPow O (kpow O zetac e) (kpow O zeta e) gc.
  Definition gate_y_inv (e : nat) (gc : K) : matrix := spec_YPow O (kpow O zetac e) (kpow O zeta e) gc.
  Definition gate_z_inv (e : nat) (gc : K) : matrix := spec_ZPow O (kpow O zetac e) (kpow O zeta e) gc.
  Definition gate_h_inv (e : nat) (gc : K) : matrix := spec_HPow O (kpow O zetac e) (kpow O zeta e) gc.
  Definition gate_cz_inv (e : nat) (gc : K) : matrix := spec_CZPow O (kpow O zetac e) (kpow O zeta e) gc.
  Definition gate_cx_inv (e : nat) (gc : K) : matrix := spec_CXPow O (kpow O zetac e) (kpow O zeta e) gc.
  Definition gate_swap_inv (e : nat) (gc : K) : matrix := spec_SwapPow O (kpow O zetac e) (kpow O zeta e) gc.

  (* effective exponent (times two) of the rule for e = 2 * exponent *)
  Definition eff (e : nat) : Z := Z.of_nat (e mod 4).
  Definition odd_e (e : nat) : bool := Nat.eqb (e mod 4) 2.       (* e = 2t with t an odd integer *)
End Sem.
