(* C14 proofs about histories of in-place operations (Cliff/PauliHist.v): the state of a mutable dense string
   after any sequence of products / scalar multiples has as matrix the same sequence of matrix operations
   applied to the starting matrix (rejected steps change nothing); assignments replace exactly the addressed
   letters and keep the coefficient; the length of the mask is invariant; linear PauliSum histories. *)
From Coq Require Import List ZArith Bool Ring Lia Arith Sorted.
From VF Require Import Base.RingOps Base.Mat Cliff.Pauli Cliff.PauliProofs Cliff.PauliHist.
Import ListNotations.
Close Scope Z_scope.

Section HistProofs.
  Context {K : Type} (O : Ops K) (L : PLaws O).

  Lemma mask_xor_length : forall a b : list pauli, length b <= length a -> length (mask_xor a b) = length a.
  Proof.
    induction a as [|x a IH]; intros [|y b] H; simpl in *; try reflexivity; [lia|].
    f_equal. apply IH. lia.
  Qed.
  Lemma set_nth_length : forall i p l, length (set_nth i p l) = length l.
  Proof. intros i p l. revert i. induction l as [|x l IH]; intros [|i]; simpl; try reflexivity. f_equal. apply IH. Qed.
  Lemma overwrite_length : forall v l, length (overwrite v l) = length l.
  Proof. induction v as [|y v IH]; intros [|x l]; simpl; try reflexivity. f_equal. apply IH. Qed.
  Lemma set_slice_length : forall lo v l, length (set_slice lo v l) = length l.
  Proof.
    induction lo as [|lo IH]; intros v l; simpl; [apply overwrite_length|].
    destruct l as [|x l]; simpl; [reflexivity|]. f_equal. apply IH.
  Qed.

  (* a step is rejected exactly when `accepts` says so: this depends on the length of the mask only *)
  Theorem ds_step_accepts (a : dstr) (s : dstep) :
    (exists r, ds_step O a s = Some r) <-> accepts (length (dmask a)) s = true.
  Proof.
    assert (HN : (exists r : dstr (K:=K), None = Some r) <-> false = true)
      by (split; [intros [r H]; discriminate | discriminate]).
    assert (HS : forall x : dstr (K:=K), (exists r, Some x = Some r) <-> true = true)
      by (intros x; split; [reflexivity | intros _; eexists; reflexivity]).
    destruct s as [b|c|i p|lo v]; simpl; unfold ds_imul.
    - destruct (Nat.ltb (length (dmask a)) (length (dmask b))); simpl; [exact HN | apply HS].
    - apply HS.
    - destruct (Nat.ltb i (length (dmask a))); [apply HS | exact HN].
    - destruct (Nat.leb (lo + length v) (length (dmask a))); [apply HS | exact HN].
  Qed.
  Lemma ds_step_none (a : dstr) (s : dstep) : ds_step O a s = None -> accepts (length (dmask a)) s = false.
  Proof.
    intros H. destruct (accepts (length (dmask a)) s) eqn:E; [|reflexivity].
    apply ds_step_accepts in E. destruct E as [r E]. congruence.
  Qed.

  (* no in-place operation changes the number of positions *)
  Theorem ds_step_length (a r : dstr) (s : dstep) : ds_step O a s = Some r -> length (dmask r) = length (dmask a).
  Proof.
    destruct s as [b|c|i p|lo v]; simpl; unfold ds_imul.
    - destruct (Nat.ltb_spec (length (dmask a)) (length (dmask b))) as [|Hle]; [discriminate|].
      intros H. injection H as <-. simpl. apply mask_xor_length. exact Hle.
    - intros H. injection H as <-. reflexivity.
    - destruct (Nat.ltb i (length (dmask a))); [|discriminate]. intros H. injection H as <-. simpl. apply set_nth_length.
    - destruct (Nat.leb _ _); [|discriminate]. intros H. injection H as <-. simpl. apply set_slice_length.
  Qed.
  Theorem ds_final_length (l : list dstep) : forall a : dstr, length (dmask (ds_final O a l)) = length (dmask a).
  Proof.
    induction l as [|s l IH]; intros a; simpl; [reflexivity|].
    destruct (ds_step O a s) as [a'|] eqn:E; rewrite IH; [apply (ds_step_length _ _ _ E)|reflexivity].
  Qed.

  (* one product / scalar step is that operation on the matrices *)
  Theorem ds_step_sound (a r : dstr) (s : dstep) : algebraic s = true -> ds_step O a s = Some r ->
    ds_matrix O r = dstep_mat O (length (dmask a)) (ds_matrix O a) s.
  Proof.
    intros Ha Hs. unfold dstep_mat.
    assert (Hacc : accepts (length (dmask a)) s = true) by (apply ds_step_accepts; eauto).
    rewrite Hacc. destruct s as [b|c|i p|lo v]; try discriminate; simpl in Hs.
    - apply (dense_imul_sound O L). exact Hs.
    - injection Hs as <-. apply (ds_scale_sound O L).
  Qed.

  (* a whole history of products and scalar multiples, rejected steps included (they act as the identity) *)
  Theorem ds_final_sound (l : list dstep) : forall a : dstr, forallb algebraic l = true ->
    ds_matrix O (ds_final O a l) = fold_left (dstep_mat O (length (dmask a))) l (ds_matrix O a).
  Proof.
    induction l as [|s l IH]; intros a Hl; simpl; [reflexivity|].
    simpl in Hl. apply andb_prop in Hl. destruct Hl as [Hs Hl].
    destruct (ds_step O a s) as [a'|] eqn:E.
    - rewrite IH by exact Hl. rewrite (ds_step_length _ _ _ E). rewrite (ds_step_sound _ _ _ Hs E). reflexivity.
    - rewrite IH by exact Hl. f_equal. unfold dstep_mat. rewrite (ds_step_none _ _ E). reflexivity.
  Qed.

  (* the trace is the list of intermediate states: its last entry is the final state, and every prefix of the
     history ends in the corresponding entry *)
  Lemma last_cons {A} : forall (t : list A) x d, last (x :: t) d = last t x.
  Proof.
    induction t as [|y t IH]; intros x d; [reflexivity|].
    change (last (x :: y :: t) d) with (last (y :: t) d). rewrite (IH y d), (IH y x). reflexivity.
  Qed.
  Theorem ds_trace_final (l : list dstep) : forall a : dstr,
    last (map snd (ds_trace O a l)) a = ds_final O a l.
  Proof.
    induction l as [|s l IH]; intros a; simpl; [reflexivity|].
    destruct (ds_step O a s) as [a'|] eqn:E; simpl map; rewrite last_cons; apply IH.
  Qed.
  Theorem ds_trace_prefix (l1 l2 : list dstep) : forall a : dstr,
    ds_trace O a (l1 ++ l2) = ds_trace O a l1 ++ ds_trace O (ds_final O a l1) l2.
  Proof.
    induction l1 as [|s l1 IH]; intros a; simpl; [reflexivity|].
    destruct (ds_step O a s) as [a'|]; simpl; rewrite IH; reflexivity.
  Qed.

  (* assignments: exactly the addressed letters change, the coefficient stays *)
  Theorem set_nth_spec : forall i p l j, i < length l ->
    nth j (set_nth i p l) pI = if Nat.eqb j i then p else nth j l pI.
  Proof.
    intros i p l. revert i. induction l as [|x l IH]; intros [|i] j Hi; simpl in *; try lia.
    - destruct j; reflexivity.
    - destruct j as [|j]; [reflexivity|]. simpl. apply IH. lia.
  Qed.
  Lemma overwrite_spec : forall v l j, length v <= length l ->
    nth j (overwrite v l) pI = if Nat.ltb j (length v) then nth j v pI else nth j l pI.
  Proof.
    induction v as [|y v IH]; intros l j H; simpl.
    - reflexivity.
    - destruct l as [|x l]; simpl in *; [lia|]. destruct j as [|j]; [reflexivity|].
      rewrite IH by lia. reflexivity.
  Qed.
  Theorem set_slice_spec : forall lo v l j, lo + length v <= length l ->
    nth j (set_slice lo v l) pI
    = if Nat.leb lo j && Nat.ltb j (lo + length v) then nth (j - lo) v pI else nth j l pI.
  Proof.
    induction lo as [|lo IH]; intros v l j H; simpl.
    - rewrite overwrite_spec by exact H. rewrite Nat.sub_0_r. reflexivity.
    - destruct l as [|x l]; simpl in *; [lia|]. destruct j as [|j]; [reflexivity|].
      rewrite IH by lia. reflexivity.
  Qed.
  Theorem ds_set_sound (a r : dstr) i p : ds_step O a (DSet i p) = Some r ->
    dcoef r = dcoef a /\ forall j, nth j (dmask r) pI = if Nat.eqb j i then p else nth j (dmask a) pI.
  Proof.
    simpl. destruct (Nat.ltb_spec i (length (dmask a))) as [Hi|]; [|discriminate].
    intros H. injection H as <-. split; [reflexivity|]. intros j. simpl. apply set_nth_spec. exact Hi.
  Qed.
  Theorem ds_slice_sound (a r : dstr) lo v : ds_step O a (DSlice lo v) = Some r ->
    dcoef r = dcoef a /\ forall j, nth j (dmask r) pI
      = if Nat.leb lo j && Nat.ltb j (lo + length v) then nth (j - lo) v pI else nth j (dmask a) pI.
  Proof.
    simpl. destruct (Nat.leb_spec (lo + length v) (length (dmask a))) as [Hi|]; [|discriminate].
    intros H. injection H as <-. split; [reflexivity|]. intros j. simpl. apply set_slice_spec. exact Hi.
  Qed.

  (* PauliSum: a history of += , -= and scalar *= is the same history on the matrices *)
  Theorem psum_final_sound qs (l : list sstep) : forall a : psum, forallb slinear l = true ->
    psum_matrix O qs (psum_final O a l) = fold_left (sstep_mat O qs) l (psum_matrix O qs a).
  Proof.
    induction l as [|s l IH]; intros a Hl; simpl; [reflexivity|].
    simpl in Hl. apply andb_prop in Hl. destruct Hl as [Hs Hl]. rewrite IH by exact Hl. f_equal.
    destruct s as [b|b|b|c]; simpl; try discriminate.
    - apply (psum_add_sound O L).
    - apply (psum_sub_sound O L).
    - apply (psum_scale_sound O L).
  Qed.
  Theorem psum_trace_final (l : list sstep) : forall a : psum,
    last (psum_trace O a l) a = psum_final O a l.
  Proof.
    induction l as [|s l IH]; intros a; [reflexivity|]. cbn [psum_trace psum_final]. cbv zeta. rewrite last_cons. apply IH.
  Qed.
End HistProofs.

(* The default register of a sum (psum_support): strictly increasing, exactly the qubits of the terms, wide enough for
   every term; hence the in-place product of two sums, taken on the qubits of BOTH operands (the qubits a sum has to report
   after `s *= t` are among them, whatever it reported before), has as matrix the product of the matrices. *)
Section Support.
  Context {K : Type} (O : Ops K) (L : PLaws O).

  Lemma qins_in q l y : In y (qins q l) <-> y = q \/ In y l.
  Proof.
    induction l as [|x r IH]; simpl.
    - split; intros [H|H]; auto; contradiction.
    - destruct (Z.ltb_spec q x) as [Hlt|Hge].
      + simpl. split; intros H; destruct H as [H|H]; auto.
      + destruct (Z.eqb_spec q x) as [Heq|Hne].
        * subst x. simpl. split; intros H; [right; exact H|]. destruct H as [H|H]; [left; auto|exact H].
        * simpl. rewrite IH. split; intros H.
          -- destruct H as [H|[H|H]]; auto.
          -- destruct H as [H|[H|H]]; auto.
  Qed.
  Lemma qins_hdrel a q l : (a < q)%Z -> HdRel Z.lt a l -> HdRel Z.lt a (qins q l).
  Proof.
    intros Haq H. destruct l as [|x r]; simpl; [constructor; exact Haq|].
    inversion H; subst. destruct (Z.ltb_spec q x); [constructor; exact Haq|].
    destruct (Z.eqb_spec q x); constructor; assumption.
  Qed.
  Lemma qins_sorted q l : Sorted Z.lt l -> Sorted Z.lt (qins q l).
  Proof.
    induction 1 as [|x r Hs IH Hd]; simpl; [repeat constructor|].
    destruct (Z.ltb_spec q x) as [Hlt|Hge].
    - constructor; [constructor; assumption|constructor; exact Hlt].
    - destruct (Z.eqb_spec q x) as [Heq|Hne]; [constructor; assumption|].
      constructor; [exact IH|apply qins_hdrel; [lia|exact Hd]].
  Qed.
  Lemma fold_qins_in l : forall acc y, In y (fold_right qins acc l) <-> In y l \/ In y acc.
  Proof.
    induction l as [|x r IH]; intros acc y; simpl.
    - split; [auto|intros [[]|H]; exact H].
    - rewrite qins_in, IH. split; intros H.
      + destruct H as [H|[H|H]]; auto.
      + destruct H as [[H|H]|H]; auto.
  Qed.
  Lemma fold_qins_sorted l : forall acc, Sorted Z.lt acc -> Sorted Z.lt (fold_right qins acc l).
  Proof. induction l as [|x r IH]; intros acc H; simpl; [exact H|]. apply qins_sorted, IH, H. Qed.

  Theorem psum_support_sorted (s : psum (K:=K)) : Sorted Z.lt (psum_support s).
  Proof. induction s as [|e r IH]; simpl; [constructor|]. apply fold_qins_sorted, IH. Qed.
  Lemma sorted_lt_nodup l : Sorted Z.lt l -> NoDup l.
  Proof.
    intros H. apply Sorted_StronglySorted in H; [|intros x y z; apply Z.lt_trans].
    induction H as [|a l Hs IH Hf]; constructor; [|exact IH].
    intros Hin. rewrite Forall_forall in Hf. specialize (Hf a Hin). lia.
  Qed.
  Theorem psum_support_nodup (s : psum (K:=K)) : NoDup (psum_support s).
  Proof. apply sorted_lt_nodup, psum_support_sorted. Qed.
  Theorem psum_support_in (s : psum (K:=K)) q :
    In q (psum_support s) <-> exists e, In e s /\ In q (pm_keys (fst e)).
  Proof.
    induction s as [|e r IH]; simpl.
    - split; [contradiction|intros [e [[] _]]].
    - rewrite fold_qins_in, IH. split; intros H.
      + destruct H as [H|[e' [He Hq]]]; [exists e; auto|exists e'; auto].
      + destruct H as [e' [[He|He] Hq]]; [subst e'; auto|right; exists e'; auto].
  Qed.
  Theorem psum_support_ok (s : psum (K:=K)) :
    Forall (fun e => NoDup (pm_keys (fst e))) s -> psum_ok (psum_support s) s.
  Proof.
    unfold psum_ok. rewrite !Forall_forall. intros H e He. split; [apply H, He|].
    intros q Hq. apply psum_support_in. exists e. auto.
  Qed.
  Theorem psum_mul_on_support (a b : psum (K:=K)) :
    Forall (fun e => NoDup (pm_keys (fst e))) (a ++ b) ->
    psum_matrix O (psum_support (a ++ b)) (psum_mul O a b)
    = mmul O (psum_matrix O (psum_support (a ++ b)) a) (psum_matrix O (psum_support (a ++ b)) b).
  Proof.
    intros H. apply psum_support_ok in H. unfold psum_ok in H. apply Forall_app in H. destruct H as [Ha Hb].
    apply (psum_mul_sound O L); [apply psum_support_nodup|exact Ha|exact Hb].
  Qed.
End Support.
