(* C13 — proofs about the tableau model.  Part 1: every table regenerated from the working tree equals the
   model's rule (a changed rule in /repo changes Generated/TableauRules.v and breaks one of these). *)
From Coq Require Import List Bool ZArith Arith Lia.
From VF Require Import Base.RingOps Base.Mat Cliff.Tableau Generated.TableauRules.
Import ListNotations.

Lemma tbl_x_ok : map fst tbl_x = qs_tested /\ map snd tbl_x = map (model_half rule_x) qs_tested.
Proof. split; vm_compute; reflexivity. Qed.
Lemma tbl_y_ok : map fst tbl_y = qs_tested /\ map snd tbl_y = map (model_half rule_y) qs_tested.
Proof. split; vm_compute; reflexivity. Qed.
Lemma tbl_z_ok : map fst tbl_z = qs_tested /\ map snd tbl_z = map (model_half rule_z) qs_tested.
Proof. split; vm_compute; reflexivity. Qed.
Lemma tbl_h_ok : map fst tbl_h = qs_tested /\ map snd tbl_h = map (model_int1 rule_h) qs_tested.
Proof. split; vm_compute; reflexivity. Qed.
Lemma tbl_cz_ok : map fst tbl_cz = qs_tested /\ map snd tbl_cz = map (model_int2 rule_cz) qs_tested.
Proof. split; vm_compute; reflexivity. Qed.
Lemma tbl_cx_ok : map fst tbl_cx = qs_tested /\ map snd tbl_cx = map (model_int2 rule_cx) qs_tested.
Proof. split; vm_compute; reflexivity. Qed.
Lemma tbl_swap_ok : map fst tbl_swap = qs_tested /\ map snd tbl_swap = map model_swap qs_tested.
Proof. split; vm_compute; reflexivity. Qed.
Lemma tbl_g_ok : tbl_g = map (fun a => let '(x1, z1, x2, z2) := a in g_fun x1 z1 x2 z2) all16.
Proof. vm_compute; reflexivity. Qed.
Lemma tbl_rowsum1_ok : tbl_rowsum1 = model_rowsum 1.
Proof. vm_compute; reflexivity. Qed.
Lemma tbl_rowsum2_ok : tbl_rowsum2 = model_rowsum 2.
Proof. vm_compute; reflexivity. Qed.

(* all regenerated tableau tables at once *)
Definition tables_match_model : Prop :=
  (map fst tbl_x = qs_tested /\ map snd tbl_x = map (model_half rule_x) qs_tested) /\
  (map fst tbl_y = qs_tested /\ map snd tbl_y = map (model_half rule_y) qs_tested) /\
  (map fst tbl_z = qs_tested /\ map snd tbl_z = map (model_half rule_z) qs_tested) /\
  (map fst tbl_h = qs_tested /\ map snd tbl_h = map (model_int1 rule_h) qs_tested) /\
  (map fst tbl_cz = qs_tested /\ map snd tbl_cz = map (model_int2 rule_cz) qs_tested) /\
  (map fst tbl_cx = qs_tested /\ map snd tbl_cx = map (model_int2 rule_cx) qs_tested) /\
  (map fst tbl_swap = qs_tested /\ map snd tbl_swap = map model_swap qs_tested) /\
  tbl_g = map (fun a => let '(x1, z1, x2, z2) := a in g_fun x1 z1 x2 z2) all16 /\
  tbl_rowsum1 = model_rowsum 1 /\ tbl_rowsum2 = model_rowsum 2.
Theorem tableau_tables_ok : tables_match_model.
Proof.
  repeat split; first [apply tbl_x_ok | apply tbl_y_ok | apply tbl_z_ok | apply tbl_h_ok | apply tbl_cz_ok
                      | apply tbl_cx_ok | apply tbl_swap_ok | apply tbl_g_ok | apply tbl_rowsum1_ok | apply tbl_rowsum2_ok].
Qed.
