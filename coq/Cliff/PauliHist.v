(* C14 model (definitions only): histories of in-place operations on ONE mutable object.
   MutableDensePauliString: *= dense string / Pauli operation / PauliString (all through the dense product
   ds_imul), *= and /= scalar, item and slice assignment.  The length of the mask never changes, so whether a
   step is rejected (ValueError / IndexError: the object stays as it was) depends on the length only.
   MutablePauliString: a history of inplace_left/right_multiply_by / *= steps.  PauliSum: += -= *= histories.
   A trace lists the state after every step; every observation of the object (unitary, frozen copy, sparse
   string, ...) between two steps has to show exactly that state. *)
From Coq Require Import List ZArith Bool Arith.
From VF Require Import Base.RingOps Base.Mat Cliff.Pauli.
Import ListNotations.

Section Hist.
  Context {K : Type} (O : Ops K).

  Inductive dstep :=
  | DMul (b : dstr (K:=K))              (* self *= b  (b already read as a dense string) *)
  | DScale (c : K)                      (* self *= c ; self /= d is DScale (1/d) *)
  | DSet (i : nat) (p : pauli)          (* self[i] = p *)
  | DSlice (lo : nat) (v : list pauli). (* self[lo : lo + len v] = v *)

  Fixpoint set_nth (i : nat) (p : pauli) (l : list pauli) : list pauli :=
    match l, i with
    | [], _ => []
    | _ :: r, 0%nat => p :: r
    | x :: r, S j => x :: set_nth j p r
    end.
  (* overwrite a prefix of l by v (v no longer than l) *)
  Fixpoint overwrite (v l : list pauli) : list pauli :=
    match v, l with
    | [], _ => l
    | _, [] => []
    | y :: v', _ :: l' => y :: overwrite v' l'
    end.
  Fixpoint set_slice (lo : nat) (v l : list pauli) : list pauli :=
    match lo, l with
    | 0%nat, _ => overwrite v l
    | S j, x :: r => x :: set_slice j v r
    | S _, [] => []
    end.

  (* does an object whose mask has length n accept the step? *)
  Definition accepts (n : nat) (s : dstep) : bool :=
    match s with
    | DMul b => negb (Nat.ltb n (length (dmask b)))
    | DScale _ => true
    | DSet i _ => Nat.ltb i n
    | DSlice lo v => Nat.leb (lo + length v) n
    end.

  Definition ds_step (a : dstr (K:=K)) (s : dstep) : option dstr :=
    match s with
    | DMul b => ds_imul O a b
    | DScale c => Some (ds_scale O a c)
    | DSet i p => if Nat.ltb i (length (dmask a)) then Some (mkD (dcoef a) (set_nth i p (dmask a))) else None
    | DSlice lo v => if Nat.leb (lo + length v) (length (dmask a))
                     then Some (mkD (dcoef a) (set_slice lo v (dmask a))) else None
    end.

  (* (accepted?, state after the step); a rejected step leaves the object unchanged *)
  Fixpoint ds_trace (a : dstr (K:=K)) (l : list dstep) : list (bool * dstr) :=
    match l with
    | [] => []
    | s :: r => match ds_step a s with
                | Some a' => (true, a') :: ds_trace a' r
                | None => (false, a) :: ds_trace a r
                end
    end.
  Fixpoint ds_final (a : dstr (K:=K)) (l : list dstep) : dstr :=
    match l with
    | [] => a
    | s :: r => match ds_step a s with Some a' => ds_final a' r | None => ds_final a r end
    end.

  (* the same history on matrices of size 2^n: products and scalar multiples; assignments have no matrix
     operation of their own (they are specified letter-wise: set_nth_spec / set_slice_spec) *)
  Definition algebraic (s : dstep) : bool := match s with DMul _ | DScale _ => true | _ => false end.
  Definition dstep_mat (n : nat) (M : matrix (K:=K)) (s : dstep) : matrix :=
    if accepts n s then
      match s with
      | DMul b => mmul O M (dense_matrix O (dcoef b) (pad n (dmask b)))
      | DScale c => mscale O c M
      | _ => M
      end
    else M.

  (* ---- MutablePauliString: one in-place step = (sign, contents) as in _imul_helper; sign -1 = left-multiply-by
     in the implementation's naming (self . other), +1 = right-multiply-by (other . self) ---- *)
  Definition mstep := (Z * bool * list (plike (K:=K)))%type.
  Definition mps_step (a : pstr (K:=K)) (s : mstep) : pstr :=
    match s with (sign, isl, l) =>
      if isl then imul_contents O sign a l else
      match l with
      | [x] => if (sign =? 1)%Z then mps_inplace_right O a x else mps_inplace_left O a x
      | _ => a
      end
    end.
  Fixpoint mps_trace (a : pstr (K:=K)) (l : list mstep) : list pstr :=
    match l with [] => [] | s :: r => let a' := mps_step a s in a' :: mps_trace a' r end.

  (* ---- PauliSum: += (0), -= (1), *= sum (2), *= scalar (3) ---- *)
  Inductive sstep := SAdd (b : psum (K:=K)) | SSub (b : psum (K:=K)) | SMul (b : psum (K:=K)) | SScale (c : K).
  Definition psum_step (a : psum (K:=K)) (s : sstep) : psum :=
    match s with
    | SAdd b => psum_add O a b
    | SSub b => psum_sub O a b
    | SMul b => psum_mul O a b
    | SScale c => psum_scale O a c
    end.
  Fixpoint psum_trace (a : psum (K:=K)) (l : list sstep) : list psum :=
    match l with [] => [] | s :: r => let a' := psum_step a s in a' :: psum_trace a' r end.
  Definition slinear (s : sstep) : bool := match s with SMul _ => false | _ => true end.
  Fixpoint psum_final (a : psum (K:=K)) (l : list sstep) : psum :=
    match l with [] => a | s :: r => psum_final (psum_step a s) r end.
  Definition sstep_mat (qs : list qid) (M : matrix (K:=K)) (s : sstep) : matrix :=
    match s with
    | SAdd b => madd O M (psum_matrix O qs b)
    | SSub b => madd O M (mscale O (kopp O (k1 O)) (psum_matrix O qs b))
    | SMul b => mmul O M (psum_matrix O qs b)
    | SScale c => mscale O c M
    end.
End Hist.
Arguments DMul {K} _. Arguments DScale {K} _. Arguments DSet {K} _ _. Arguments DSlice {K} _ _.
Arguments SAdd {K} _. Arguments SSub {K} _. Arguments SMul {K} _. Arguments SScale {K} _.

(* comparison of traces in the exact instance *)
Definition dtrace_eqb (a b : list (bool * dstr (K:=GQ))) : bool :=
  (fix go (a b : list (bool * dstr (K:=GQ))) := match a, b with
     | [], [] => true
     | (x, d) :: a', (y, e) :: b' => Bool.eqb x y && ds_eqb d e && go a' b'
     | _, _ => false end) a b.
Definition ptrace_eqb (a b : list (pstr (K:=GQ))) : bool :=
  (fix go (a b : list (pstr (K:=GQ))) := match a, b with
     | [], [] => true
     | d :: a', e :: b' => ps_eqb d e && go a' b'
     | _, _ => false end) a b.
Definition strace_eqb (a b : list psumG) : bool :=
  (fix go (a b : list psumG) := match a, b with
     | [], [] => true
     | d :: a', e :: b' => psum_eqb d e && go a' b'
     | _, _ => false end) a b.

(* ---- the qubits of a sum: PauliSum.qubits, the default register of matrix() / sparse_matrix() / with_qubits /
   PauliSumExponential.  Sorted, without repetition, the union of the keys of the terms; the implementation skips the
   terms whose coefficient is zero (LinearDict.keys), which needs a decidable zero test: the exact instance. ---- *)
Fixpoint qins (q : qid) (l : list qid) : list qid :=
  match l with
  | [] => [q]
  | x :: r => if (q <? x)%Z then q :: l else if (q =? x)%Z then l else x :: qins q r
  end.
Definition psum_support {K} (s : psum (K:=K)) : list qid :=
  fold_right (fun e acc => fold_right qins acc (pm_keys (fst e))) [] s.
Definition psum_qubitsG (s : psumG) : list qid :=
  psum_support (filter (fun e => negb (gq_is0 (snd e))) s).
