(* C13.D1 — rule_is_conjugation, piece SWAP0 (generated layout: one file per gate/exponent so the pieces build in parallel). *)
From Coq Require Import Ring List ZArith Bool Arith Lia.
From VF Require Import Base.RingOps Base.Mat Gates.GateSpecs Cliff.Tableau Cliff.TableauSem Cliff.TableauConjLemmas.
Import ListNotations.

Section Piece.
  Context {K : Type} (O : Ops K) (L : Laws O).
  Add Ring Kring : (law_ring O L).
  Infix "+" := (kadd O). Infix "*" := (kmul O). Infix "-" := (ksub O).
  Notation "- a" := (kopp O a).
  Notation z0 := (k0 O). Notation z1 := (k1 O). Notation hf := (khalf O). Notation ii := (ki O). Notation s2 := (ks2 O).
  Let half2 := half2 O L. Let ii2 := ii2 O L. Let s22 := s22 O L. Let cancel2 := cancel2 O L.
  Let kpow_zeta := kpow_zeta O L. Let cos_sin_zs := cos_sin_zs O L.
  Variables g gc : K.
  Hypothesis U : g * gc = z1.

  Ltac split_list :=
    repeat match goal with
           | |- (_ :: _) = (_ :: _) => apply (f_equal2 cons)
           | |- @nil _ = @nil _ => reflexivity
           end.
  Ltac fin := first [ ring | ring [U ii2 half2 s22]
          | apply cancel2; ring [U ii2 half2 s22]
          | do 2 apply cancel2; ring [U ii2 half2 s22]
          | do 3 apply cancel2; ring [U ii2 half2 s22]
          | do 4 apply cancel2; ring [U ii2 half2 s22] ].
  Ltac mat_eq := cbv -[kadd kmul kopp ksub kconj k0 k1 ki khalf ks2]; split_list; fin.
  Ltac gate_eq e :=
    unfold gate_x, gate_y, gate_z, gate_h, gate_cz, gate_cx, gate_swap,
           gate_x_inv, gate_y_inv, gate_z_inv, gate_h_inv, gate_cz_inv, gate_cx_inv, gate_swap_inv,
           spec_CXPow, spec_CZPow, spec_SwapPow, spec_XPow, spec_YPow, spec_ZPow, spec_HPow;
    rewrite (proj1 (kpow_zeta e ltac:(lia))), (proj2 (kpow_zeta e ltac:(lia)));
    cbv zeta;
    rewrite ?(proj1 (proj1 (cos_sin_zs e ltac:(lia)))), ?(proj2 (proj1 (cos_sin_zs e ltac:(lia)))),
            ?(proj1 (proj2 (cos_sin_zs e ltac:(lia)))), ?(proj2 (proj2 (cos_sin_zs e ltac:(lia))));
    repeat split; try (intros p; first [destruct p as [[[|] [|]] [|]] | destruct p as [[[[[|] [|]] [|]] [|]] [|]]]); mat_eq.

  Lemma conj_SWAP0 : conj2_ok O (gate_swap O 0 g) (gate_swap_inv O 0 gc) (rule_swap (odd_e 0)).
  Proof. gate_eq 0. Qed.
End Piece.
