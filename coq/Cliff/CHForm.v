(* C13.D6/D7 — model of cirq/sim/clifford/stabilizer_state_ch_form.py in the shape of the code (definitions only).
   |psi> = omega U_C U_H |s>: binary matrices F, G, M (rows are lists of bools), gamma in Z_4, vectors v, s and the
   scalar omega in the generic ring (1/sqrt 2, i available).  The phase exp(i pi exponent shift) of every apply_* is
   supplied by the caller as a ring element. *)
From Coq Require Import List Bool ZArith Arith.
From VF Require Import Base.RingOps Base.Mat Cliff.Tableau.
Import ListNotations.

Definition bmat := list (list bool).
Definition bvec := list bool.
Definition bget (v : bvec) (i : nat) : bool := nth i v false.
Definition mrowb (m : bmat) (i : nat) : bvec := nth i m [].
Definition mcolb (m : bmat) (j : nat) : bvec := map (fun r => bget r j) m.
Fixpoint vxor (a b : bvec) : bvec :=
  match a, b with x :: a', y :: b' => xorb x y :: vxor a' b' | _, _ => [] end.
Fixpoint vand (a b : bvec) : bvec :=
  match a, b with x :: a', y :: b' => (x && y) :: vand a' b' | _, _ => [] end.
Definition vnot (a : bvec) : bvec := map negb a.
Definition vcount (a : bvec) : Z := fold_right (fun b acc => (Z.b2z b + acc)%Z) 0%Z a.
Definition bvec_eqb (a b : bvec) : bool :=
  (fix go (a b : bvec) := match a, b with [] , [] => true | x :: a', y :: b' => Bool.eqb x y && go a' b' | _, _ => false end) a b.
(* column j of m ^= c *)
Definition col_xor (m : bmat) (j : nat) (c : bvec) : bmat :=
  map (fun rc => set_nth (fst rc) j (xorb (bget (fst rc) j) (snd rc))) (combine m c).
Definition row_xor (m : bmat) (i : nat) (r : bvec) : bmat := set_nth m i (vxor (mrowb m i) r).
Definition ident_b (n : nat) : bmat := map (fun i => map (fun j => Nat.eqb i j) (seq 0 n)) (seq 0 n).
Definition where_true (a : bvec) : list nat :=
  map fst (filter (fun p => snd p) (combine (seq 0 (length a)) a)).

Section CH.
  Context {K : Type} (O : Ops K).
  Infix "+" := (kadd O). Infix "*" := (kmul O).
  Notation z0 := (k0 O). Notation z1 := (k1 O). Notation ii := (ki O). Notation s2 := (ks2 O).
  Notation m1 := (kopp O (k1 O)).

  Record chst := mkCH { chF : bmat; chG : bmat; chM : bmat; chgam : list Z; chv : bvec; chs : bvec; chom : K }.
  Definition ipow (k : Z) : K := kpow O ii (Z.to_nat (k mod 4)).
  Definition sgnb (b : bool) : K := if b then m1 else z1.

  Definition ch_zero (n : nat) : chst :=
    mkCH (ident_b n) (ident_b n) (repeat (repeat false n) n) (repeat 0%Z n) (repeat false n) (repeat false n) z1.

  Definition S_right (q : nat) (c : chst) : chst :=
    let fq := mcolb (chF c) q in
    mkCH (chF c) (chG c) (col_xor (chM c) q fq)
         (map (fun p => ((fst p - Z.b2z (snd p)) mod 4)%Z) (combine (chgam c) fq)) (chv c) (chs c) (chom c).
  Definition CZ_right (q r : nat) (c : chst) : chst :=
    let fq := mcolb (chF c) q in let fr := mcolb (chF c) r in
    mkCH (chF c) (chG c) (col_xor (col_xor (chM c) q fr) r fq)
         (map (fun p => ((fst p + 2 * (Z.b2z (fst (snd p)) * Z.b2z (snd (snd p)))) mod 4)%Z) (combine (chgam c) (combine fq fr)))
         (chv c) (chs c) (chom c).
  Definition CNOT_right (q r : nat) (c : chst) : chst :=
    mkCH (col_xor (chF c) r (mcolb (chF c) q)) (col_xor (chG c) q (mcolb (chG c) r)) (col_xor (chM c) q (mcolb (chM c) r))
         (chgam c) (chv c) (chs c) (chom c).

  (* _H_decompose(v, y, z, delta): None when y = z *)
  Definition H_decompose (v y z : bool) (delta : Z) : option (K * bool * bool * bool) :=
    if Bool.eqb y z then None
    else if negb v then
      let omega := ipow (delta * Z.b2z y) in
      let delta2 := ((if y then - delta else delta) mod 4)%Z in
      Some (omega, Z.odd delta2, true, (2 <=? delta2)%Z)
    else if Z.even delta then
      let c := (2 <=? delta mod 4)%Z in
      Some (sgnb (c && y), false, false, c)
    else
      Some (s2 * (z1 + ipow delta), true, true, negb (xorb (2 <=? delta mod 4)%Z y)).

  Definition with_om (c : chst) (w : K) : chst := mkCH (chF c) (chG c) (chM c) (chgam c) (chv c) (chs c) (chom c * w).
  Definition with_s (c : chst) (s : bvec) : chst := mkCH (chF c) (chG c) (chM c) (chgam c) (chv c) s (chom c).
  Definition with_v (c : chst) (v : bvec) : chst := mkCH (chF c) (chG c) (chM c) (chgam c) v (chs c) (chom c).

  Definition update_sum (t u : bvec) (delta : Z) (alpha : Z) (c : chst) : option chst :=
    if bvec_eqb t u then
      Some (with_om (with_s c t) (s2 * sgnb (Z.odd alpha) * (z1 + ipow delta)))
    else
      let d := vxor t u in
      let set0 := where_true (vand (vnot (chv c)) d) in
      let set1 := where_true (vand (chv c) d) in
      let '(q, c1) :=
        match set0, set1 with
        | q :: rest, _ => (q, fold_left (fun acc i => CZ_right q i acc) set1 (fold_left (fun acc i => CNOT_right q i acc) rest c))
        | [], q :: rest => (q, fold_left (fun acc i => CNOT_right i q acc) rest c)
        | [], [] => (0, c)
        end in
      let '(y, z) := if bget t q then (set_nth u q (negb (bget u q)), u) else (t, set_nth t q (negb (bget t q))) in
      match H_decompose (bget (chv c1) q) (bget y q) (bget z q) delta with
      | None => None
      | Some (om, a, b, cc) =>
          let c2 := with_om (with_s c1 (set_nth y q cc)) (sgnb (Z.odd alpha) * om) in
          let c3 := if a then S_right q c2 else c2 in
          Some (with_v c3 (set_nth (chv c3) q b))
      end.

  (* left multiplication rules; ph = exp(i pi exponent shift) *)
  Definition ch_S_left (a : nat) (c : chst) : chst :=
    mkCH (chF c) (chG c) (row_xor (chM c) a (mrowb (chG c) a))
         (set_nth (chgam c) a ((nth a (chgam c) 0 - 1) mod 4)%Z) (chv c) (chs c) (chom c).
  Definition ch_z (q : Z) (a : nat) (ph : K) (c : chst) : option chst :=
    match expo_half q with
    | ENone => Some (with_om c ph)
    | EErr => None
    | EEff e => Some (with_om (Nat.iter (Z.to_nat e) (ch_S_left a) c) ph)
    end.
  Definition ch_h_core (a : nat) (c : chst) : option chst :=
    let g := mrowb (chG c) a in let f := mrowb (chF c) a in let m := mrowb (chM c) a in
    let v := chv c in let s := chs c in let nv := vnot v in
    let t := vxor s (vand g v) in
    let u := vxor (vxor s (vand f nv)) (vand m v) in
    let alpha := (vcount (vand (vand g nv) s) mod 2)%Z in
    let beta := ((vcount (vand (vand m nv) s) + vcount (vand (vand f v) m) + vcount (vand (vand f v) s)) mod 2)%Z in
    let delta := ((nth a (chgam c) 0 + 2 * (alpha + beta)) mod 4)%Z in
    update_sum t u delta alpha c.
  Definition ch_h (q : Z) (a : nat) (ph : K) (c : chst) : option chst :=
    match expo_int q with
    | ENone => Some (with_om c ph)
    | EErr => None
    | EEff _ => match ch_h_core a c with Some c' => Some (with_om c' ph) | None => None end
    end.
  Definition obind {A B} (x : option A) (f : A -> option B) : option B := match x with Some a => f a | None => None end.
  Definition ch_x (q : Z) (a : nat) (ph : K) (c : chst) : option chst :=
    match expo_half q with
    | ENone => Some (with_om c ph)
    | EErr => None
    | EEff _ => obind (ch_h_core a c) (fun c1 => obind (ch_z q a z1 c1) (fun c2 => obind (ch_h_core a c2) (fun c3 => Some (with_om c3 ph))))
    end.
  Definition zeta8 : K := s2 * (z1 + ii).
  Definition zeta8c : K := s2 * (z1 + kopp O ii).
  Definition ch_y (q : Z) (a : nat) (ph : K) (c : chst) : option chst :=
    if negb (q mod 2 =? 0)%Z then None
    else match ((q mod 8) / 2)%Z with
    | 0%Z => Some (with_om c ph)
    | 1%Z => obind (ch_z 4 a z1 c) (fun c1 => obind (ch_h_core a c1) (fun c2 => Some (with_om c2 (ph * zeta8))))
    | 2%Z => obind (ch_z 4 a z1 c) (fun c1 => obind (ch_h_core a c1) (fun c2 => obind (ch_z 4 a z1 c2) (fun c3 =>
             obind (ch_h_core a c3) (fun c4 => Some (with_om c4 (ph * ii))))))
    | _ => obind (ch_h_core a c) (fun c1 => obind (ch_z 4 a z1 c1) (fun c2 => Some (with_om c2 (ph * zeta8c))))
    end.
  Definition ch_cz_core (a b : nat) (c : chst) : chst :=
    let m1' := row_xor (chM c) a (mrowb (chG c) b) in
    mkCH (chF c) (chG c) (row_xor m1' b (mrowb (chG c) a)) (chgam c) (chv c) (chs c) (chom c).
  Definition ch_cx_core (a b : nat) (c : chst) : chst :=
    let ga := ((nth a (chgam c) 0 + nth b (chgam c) 0 + 2 * (vcount (vand (mrowb (chM c) a) (mrowb (chF c) b)) mod 2)) mod 4)%Z in
    mkCH (row_xor (chF c) a (mrowb (chF c) b)) (row_xor (chG c) b (mrowb (chG c) a)) (row_xor (chM c) a (mrowb (chM c) b))
         (set_nth (chgam c) a ga) (chv c) (chs c) (chom c).
  Definition ch_int2 (core : nat -> nat -> chst -> chst) (q : Z) (a b : nat) (ph : K) (c : chst) : option chst :=
    match expo_int q with
    | ENone => Some (with_om c ph)
    | EErr => None
    | EEff _ => Some (with_om (core a b c) ph)
    end.
  (* StabilizerSimulationState._swap: cx(c,t); cx(t,c, exponent, shift); cx(c,t) *)
  Definition ch_swap (q : Z) (a b : nat) (ph : K) (c : chst) : option chst :=
    if (q mod 4 =? 0)%Z
    then obind (ch_int2 ch_cx_core q b a ph (ch_cx_core a b c)) (fun c2 => Some (ch_cx_core a b c2))
    else None.

  Definition ch_apply (g : cgate) (ph : K) (c : chst) : option chst :=
    match g with
    | CX_ q a => ch_x q a ph c
    | CY_ q a => ch_y q a ph c
    | CZ_ q a => ch_z q a ph c
    | CH_ q a => ch_h q a ph c
    | CCZ_ q a b => ch_int2 ch_cz_core q a b ph c
    | CCX_ q a b => ch_int2 ch_cx_core q a b ph c
    | CSWAP_ q a b => ch_swap q a b ph c
    | CPhase_ => Some (with_om c ph)            (* apply_global_phase(coefficient) *)
    end.
  Fixpoint ch_run (gs : list (cgate * K)) (c : chst) : option chst :=
    match gs with
    | [] => Some c
    | (g, ph) :: r => obind (ch_apply g ph c) (ch_run r)
    end.

  (* project_Z(q, z) and _measure(q, prng) with the random bits for the positions with v = 1 supplied in order *)
  Definition ch_project (q : nat) (z : bool) (c : chst) : option chst :=
    let g := mrowb (chG c) q in
    let t := chs c in
    let u := vxor (vand g (chv c)) (chs c) in
    let delta := ((2 * vcount (vand (vand g (vnot (chv c))) (chs c)) + 2 * Z.b2z z) mod 4)%Z in
    let c' := if bvec_eqb t u then with_om c s2 else c in
    update_sum t u delta 0%Z c'.
  Fixpoint fill_w (v s : bvec) (bits : list bool) : bvec :=
    match v, s with
    | true :: v', _ :: s' => match bits with b :: r => b :: fill_w v' s' r | [] => false :: fill_w v' s' [] end
    | false :: v', x :: s' => x :: fill_w v' s' bits
    | _, _ => []
    end.
  Definition ch_measure (q : nat) (bits : list bool) (c : chst) : option (chst * bool) :=
    let w := fill_w (chv c) (chs c) bits in
    let x := Z.odd (vcount (vand w (mrowb (chG c) q))) in
    match ch_project q x c with Some c' => Some (c', x) | None => None end.

  (* inner_product_of_state_and_x: the amplitude <y|psi> for basis digits y *)
  Definition ch_amp (c : chst) (y : bvec) : K :=
    let n := length y in
    let mu0 := fold_right Z.add 0%Z (map (fun p => (Z.b2z (fst p) * snd p)%Z) (combine y (chgam c))) in
    let '(u, mu) := fold_left (fun (acc : bvec * Z) p =>
                                 if bget y p then
                                   let u' := vxor (fst acc) (mrowb (chF c) p) in
                                   (u', (snd acc + 2 * (vcount (vand (mrowb (chM c) p) u') mod 2))%Z)
                                 else acc)
                              (seq 0 n) (repeat false n, mu0) in
    let ok := forallb (fun p => fst p || Bool.eqb (fst (snd p)) (snd (snd p))) (combine (chv c) (combine u (chs c))) in
    if ok then chom c * kpow O s2 (Z.to_nat (vcount (chv c))) * ipow mu * sgnb (Z.odd (vcount (vand (vand (chv c) u) (chs c))))
    else z0.
  Fixpoint all_bits (n : nat) : list bvec :=
    match n with 0 => [[]] | S m => flat_map (fun b => map (cons b) (all_bits m)) [false; true] end.
  Definition ch_state_vector (n : nat) (c : chst) : list K := map (ch_amp c) (all_bits n).
End CH.
