(* C13.D2 — lifting the local conjugation lemmas to n qubits and to circuits:
   a gate on axis a (axes c, t) of an n-qubit state intertwines a signed Pauli string P with the string the
   tableau rule produces (G_a P = P' G_a as operators on states), for every n, every row, every state;
   by induction over the op list every row of the tableau is U (initial row) U^dagger, and the stabilizer rows
   stabilize the evolved state. *)
From Coq Require Import Ring List ZArith Bool Arith Lia.
From VF Require Import Base.RingOps Base.Mat Base.Tensor Base.TensorProofs Gates.GateSpecs Cliff.Tableau Cliff.TableauSem.
Import ListNotations.

Notation II := (false, false).

(* ---- list lemmas ---- *)
Lemma set_nth_length {A} (l : list A) a v : length (set_nth l a v) = length l.
Proof. revert a. induction l as [|x l IH]; intros [|a]; simpl; auto. Qed.
Lemma nth_set_nth_same {A} (l : list A) a v d : a < length l -> nth a (set_nth l a v) d = v.
Proof. revert a. induction l as [|x l IH]; intros [|a] H; simpl in *; try lia; auto. apply IH. lia. Qed.
Lemma nth_set_nth_other {A} (l : list A) a b v d : a <> b -> nth b (set_nth l a v) d = nth b l d.
Proof.
  revert a b. induction l as [|x l IH]; intros a b H; simpl; [destruct a; reflexivity|].
  destruct a as [|a]; destruct b as [|b]; simpl; try reflexivity; try congruence. apply IH. congruence.
Qed.
Lemma set_nth_set_nth_same {A} (l : list A) a v w : set_nth (set_nth l a v) a w = set_nth l a w.
Proof. revert a. induction l as [|x l IH]; intros [|a]; simpl; auto. f_equal. apply IH. Qed.
Lemma set_nth_comm {A} (l : list A) a b v w : a <> b -> set_nth (set_nth l a v) b w = set_nth (set_nth l b w) a v.
Proof.
  revert a b. induction l as [|x l IH]; intros a b H; simpl; [destruct a, b; reflexivity|].
  destruct a as [|a]; destruct b as [|b]; simpl; try reflexivity; try congruence. f_equal. apply IH. congruence.
Qed.
Lemma upd_length i a v : length (upd i a v) = length i.
Proof. revert a. induction i as [|x i IH]; intros [|a]; simpl; auto. Qed.
Lemma upd_upd_same i a v w : upd (upd i a v) a w = upd i a w.
Proof. revert a. induction i as [|x i IH]; intros [|a]; simpl; auto. f_equal. apply IH. Qed.
Lemma upd_get_same i a : upd i a (get i a) = i.
Proof. revert a. induction i as [|x i IH]; intros [|a]; simpl; auto. unfold get in *. simpl. f_equal. apply IH. Qed.

Section Lift.
  Context {K : Type} (O : Ops K) (L : Laws O).
  Add Ring Kring : (law_ring O L).
  Infix "+" := (kadd O). Infix "*" := (kmul O). Infix "-" := (ksub O).
  Notation "- a" := (kopp O a).
  Notation z0 := (k0 O). Notation z1 := (k1 O). Notation ii := (ki O).

  Lemma wf_upd n i a v : wf n i -> v < 2 -> wf n (upd i a v).
  Proof.
    intros [Hl Hb] Hv. split; [rewrite upd_length; exact Hl|].
    clear Hl. revert a. induction Hb as [|x i Hx Hb IH]; intros [|a]; simpl; constructor; auto.
  Qed.
  Lemma wf_get n i a : wf n i -> get i a < 2.
  Proof.
    intros [_ Hb]. unfold get. revert a. induction Hb as [|x i Hx Hb IH]; intros [|a]; simpl; auto.
  Qed.
  Lemma xflip_length P i : length (xflip P i) = length i.
  Proof. revert i. induction P as [|p P IH]; intros [|d i]; simpl; auto. Qed.
  Lemma fl_lt x d : d < 2 -> fl x d < 2.
  Proof. intros H. destruct x; simpl; [destruct d; lia|exact H]. Qed.
  Lemma wf_xflip n P i : wf n i -> wf n (xflip P i).
  Proof.
    intros [Hl Hb]. split; [rewrite xflip_length; exact Hl|]. clear Hl.
    revert P. induction Hb as [|x i Hx Hb IH]; intros [|p P]; simpl; constructor; auto. apply fl_lt. exact Hx.
  Qed.

  (* splitting off the factor of one position *)
  Lemma coef_split P : forall i a, a < length P -> length i = length P ->
    coef O P i = c1 O (nth a P II) (get i a) * coef O (set_nth P a II) i.
  Proof.
    induction P as [|p P IH]; intros [|d i] [|a] Ha Hl; simpl in *; try lia.
    - unfold get; simpl. ring.
    - unfold get in *; simpl. rewrite (IH i a) by lia. ring.
  Qed.
  Lemma coef_setII_upd P : forall i a v, coef O (set_nth P a II) (upd i a v) = coef O (set_nth P a II) i.
  Proof.
    induction P as [|p P IH]; intros [|d i] [|a] v; simpl; try reflexivity.
    rewrite IH. reflexivity.
  Qed.
  Lemma coef_upd P i a v : a < length P -> length i = length P ->
    coef O P (upd i a v) = c1 O (nth a P II) v * coef O (set_nth P a II) i.
  Proof.
    intros Ha Hl. rewrite (coef_split P (upd i a v) a Ha) by (rewrite upd_length; exact Hl).
    rewrite get_upd_same by lia. rewrite coef_setII_upd. reflexivity.
  Qed.
  Lemma coef_set P i a p : a < length P -> length i = length P ->
    coef O (set_nth P a p) i = c1 O p (get i a) * coef O (set_nth P a II) i.
  Proof.
    intros Ha Hl. rewrite (coef_split (set_nth P a p) i a) by (rewrite ?set_nth_length; lia).
    rewrite nth_set_nth_same by exact Ha. rewrite set_nth_set_nth_same. reflexivity.
  Qed.
  Lemma xflip_upd P : forall i a v, a < length P -> length i = length P ->
    xflip P (upd i a v) = upd (xflip P i) a (fl (fst (nth a P II)) v).
  Proof.
    induction P as [|p P IH]; intros [|d i] [|a] v Ha Hl; simpl in *; try lia; try reflexivity.
    f_equal. apply IH; lia.
  Qed.
  Lemma xflip_set P : forall i a p, a < length P -> length i = length P ->
    xflip (set_nth P a p) i = upd (xflip P i) a (fl (fst p) (get i a)).
  Proof.
    induction P as [|p0 P IH]; intros [|d i] [|a] p Ha Hl; simpl in *; try lia; try reflexivity.
    unfold get in *; simpl. f_equal. apply IH; lia.
  Qed.
  Lemma get_xflip P : forall i a, a < length P -> length i = length P ->
    get (xflip P i) a = fl (fst (nth a P II)) (get i a).
  Proof.
    induction P as [|p P IH]; intros [|d i] [|a] Ha Hl; simpl in *; try lia; try reflexivity.
    unfold get in *; simpl. apply IH; lia.
  Qed.

  (* normal form of a one-axis and a two-axis application *)
  Lemma apply1_nf G a (phi : tensor (K:=K)) i :
    apply O (mat_of O [2] G) [2] [a] phi i
    = mget O G (get i a) 0 * phi (upd i a 0) + (mget O G (get i a) 1 * phi (upd i a 1) + z0).
  Proof. reflexivity. Qed.
  Lemma apply2_nf G c t (phi : tensor (K:=K)) i :
    apply O (mat_of O [2; 2] G) [2; 2] [c; t] phi i
    = mget O G (get i c * 2 + get i t) 0 * phi (upd (upd i c 0) t 0)
      + (mget O G (get i c * 2 + get i t) 1 * phi (upd (upd i c 0) t 1)
      + (mget O G (get i c * 2 + get i t) 2 * phi (upd (upd i c 1) t 0)
      + (mget O G (get i c * 2 + get i t) 3 * phi (upd (upd i c 1) t 1) + z0))).
  Proof. reflexivity. Qed.

  Ltac kcbv := cbv -[kadd kmul kopp ksub kconj k0 k1 ki khalf ks2].

  Section One.
    Variables a0 a1 a2 a3 : K.
    Let G := mk2 a0 a1 a2 a3.
    Lemma lhs1 (x z r : bool) (b : nat) (phi : nat -> K) : b < 2 ->
      sgn O r * (mget O G b 0 * (c1 O (x, z) 0 * phi (fl x 0)) + mget O G b 1 * (c1 O (x, z) 1 * phi (fl x 1)))
      = mget O (mmul O G (pms1 O (x, z, r))) b 0 * phi 0 + mget O (mmul O G (pms1 O (x, z, r))) b 1 * phi 1.
    Proof. intros Hb. destruct b as [|[|b]]; [| |lia]; destruct x, z, r; kcbv; ring. Qed.
    Lemma rhs1 (x z r : bool) (b : nat) (phi : nat -> K) : b < 2 ->
      sgn O r * (c1 O (x, z) b * (mget O G (fl x b) 0 * phi 0 + mget O G (fl x b) 1 * phi 1))
      = mget O (mmul O (pms1 O (x, z, r)) G) b 0 * phi 0 + mget O (mmul O (pms1 O (x, z, r)) G) b 1 * phi 1.
    Proof. intros Hb. destruct b as [|[|b]]; [| |lia]; destruct x, z, r; kcbv; ring. Qed.

    Lemma lift1 f a n : a < n -> (forall p, mmul O G (pms1 O p) = mmul O (pms1 O (f p)) G) ->
      forall row psi i, length (rbits row) = n -> wf n i ->
      apply O (mat_of O [2] G) [2] [a] (pauli_act O row psi) i
      = pauli_act O (row_apply1 f a row) (apply O (mat_of O [2] G) [2] [a] psi) i.
    Proof.
      intros Ha HG [P r] psi i HP Hw. simpl in HP. destruct Hw as [Hl Hb].
      assert (Hli : length i = length P) by lia. assert (HaP : a < length P) by lia.
      unfold row_apply1, bit_at. simpl rbits. simpl rsign.
      destruct (nth a P II) as [x z] eqn:Ep. destruct (f (x, z, r)) as [[x' z'] r'] eqn:Ef.
      unfold pauli_act. simpl rbits. simpl rsign.
      rewrite !apply1_nf.
      rewrite !(coef_upd P i a) by assumption. rewrite !(xflip_upd P i a) by assumption.
      rewrite (coef_set P i a (x', z')) by assumption. rewrite (xflip_set P i a) by assumption.
      rewrite Ep. simpl fst.
      rewrite get_upd_same by (rewrite xflip_length; lia). rewrite !upd_upd_same.
      set (B := xflip P i). set (R := coef O (set_nth P a II) i). set (b := get i a).
      assert (Hb2 : b < 2) by (apply (wf_get n); split; assumption).
      set (phi := fun v => psi (upd B a v)).
      transitivity (R * (sgn O r * (mget O G b 0 * (c1 O (x, z) 0 * phi (fl x 0)) + mget O G b 1 * (c1 O (x, z) 1 * phi (fl x 1))))).
      { unfold phi. ring. }
      rewrite lhs1 by exact Hb2. rewrite HG, Ef. rewrite <- rhs1 by exact Hb2. unfold phi. ring.
    Qed.
  End One.

  Lemma upd2_over i c t A B v0 v1 : c <> t ->
    upd (upd (upd (upd i c A) t B) c v0) t v1 = upd (upd i c v0) t v1.
  Proof.
    intros H. rewrite (upd_comm (upd i c A) t c B v0) by congruence.
    rewrite upd_upd_same. rewrite upd_upd_same. reflexivity.
  Qed.

  Section Two.
    Variables g00 g01 g02 g03 g10 g11 g12 g13 g20 g21 g22 g23 g30 g31 g32 g33 : K.
    Let G := mk4 (g00, g01, g02, g03) (g10, g11, g12, g13) (g20, g21, g22, g23) (g30, g31, g32, g33).
    Definition sum4 (F : nat -> nat -> K) : K := F 0 0 + (F 0 1 + (F 1 0 + (F 1 1 + z0))).
    Lemma lhs2 (xc zc xt zt r : bool) (b0 b1 : nat) (phi : nat -> nat -> K) : b0 < 2 -> b1 < 2 ->
      sgn O r * sum4 (fun v0 v1 => mget O G (b0 * 2 + b1) (v0 * 2 + v1)
                                  * (c1 O (xc, zc) v0 * (c1 O (xt, zt) v1 * phi (fl xc v0) (fl xt v1))))
      = sum4 (fun w0 w1 => mget O (mmul O G (pms2 O (xc, zc, xt, zt, r))) (b0 * 2 + b1) (w0 * 2 + w1) * phi w0 w1).
    Proof.
      intros H0 H1. destruct b0 as [|[|b0]]; [| |lia]; (destruct b1 as [|[|b1]]; [| |lia]);
        destruct xc, zc, xt, zt, r; kcbv; ring.
    Qed.
    Lemma rhs2 (xc zc xt zt r : bool) (b0 b1 : nat) (phi : nat -> nat -> K) : b0 < 2 -> b1 < 2 ->
      sgn O r * (c1 O (xc, zc) b0 * (c1 O (xt, zt) b1 *
         sum4 (fun v0 v1 => mget O G (fl xc b0 * 2 + fl xt b1) (v0 * 2 + v1) * phi v0 v1)))
      = sum4 (fun w0 w1 => mget O (mmul O (pms2 O (xc, zc, xt, zt, r)) G) (b0 * 2 + b1) (w0 * 2 + w1) * phi w0 w1).
    Proof.
      intros H0 H1. destruct b0 as [|[|b0]]; [| |lia]; (destruct b1 as [|[|b1]]; [| |lia]);
        destruct xc, zc, xt, zt, r; kcbv; ring.
    Qed.

    Lemma lift2 f c t n : c < n -> t < n -> c <> t ->
      (forall p, mmul O G (pms2 O p) = mmul O (pms2 O (f p)) G) ->
      forall row psi i, length (rbits row) = n -> wf n i ->
      apply O (mat_of O [2; 2] G) [2; 2] [c; t] (pauli_act O row psi) i
      = pauli_act O (row_apply2 f c t row) (apply O (mat_of O [2; 2] G) [2; 2] [c; t] psi) i.
    Proof.
      intros Hc Ht Hct HG [P r] psi i HP Hw. simpl in HP. destruct Hw as [Hl Hb].
      assert (Hli : length i = length P) by lia.
      assert (HcP : c < length P) by lia. assert (HtP : t < length P) by lia.
      unfold row_apply2, bit_at. simpl rbits. simpl rsign.
      destruct (nth c P II) as [xc zc] eqn:Ec. destruct (nth t P II) as [xt zt] eqn:Et.
      destruct (f (xc, zc, xt, zt, r)) as [[[[xc' zc'] xt'] zt'] r'] eqn:Ef.
      unfold pauli_act. simpl rbits. simpl rsign.
      rewrite !apply2_nf.
      (* left: the four updated indices *)
      assert (EL : forall v0 v1, coef O P (upd (upd i c v0) t v1)
                   = c1 O (xt, zt) v1 * (c1 O (xc, zc) v0 * coef O (set_nth (set_nth P t II) c II) i)).
      { intros v0 v1. rewrite (coef_upd P (upd i c v0) t v1) by (rewrite ?upd_length; assumption).
        rewrite Et. rewrite (coef_upd (set_nth P t II) i c v0) by (rewrite ?set_nth_length; assumption).
        rewrite nth_set_nth_other by congruence. rewrite Ec. reflexivity. }
      assert (XL : forall v0 v1, xflip P (upd (upd i c v0) t v1) = upd (upd (xflip P i) c (fl xc v0)) t (fl xt v1)).
      { intros v0 v1. rewrite (xflip_upd P (upd i c v0) t v1) by (rewrite ?upd_length; assumption).
        rewrite (xflip_upd P i c v0) by assumption. rewrite Ec, Et. reflexivity. }
      rewrite !EL, !XL.
      (* right: the updated row *)
      assert (ER : coef O (set_nth (set_nth P c (xc', zc')) t (xt', zt')) i
                   = c1 O (xt', zt') (get i t) * (c1 O (xc', zc') (get i c) * coef O (set_nth (set_nth P t II) c II) i)).
      { rewrite (coef_set (set_nth P c (xc', zc')) i t (xt', zt')) by (rewrite ?set_nth_length; assumption).
        rewrite (set_nth_comm P c t) by exact Hct.
        rewrite (coef_set (set_nth P t II) i c (xc', zc')) by (rewrite ?set_nth_length; assumption). reflexivity. }
      assert (XR : xflip (set_nth (set_nth P c (xc', zc')) t (xt', zt')) i
                   = upd (upd (xflip P i) c (fl xc' (get i c))) t (fl xt' (get i t))).
      { rewrite (xflip_set (set_nth P c (xc', zc')) i t (xt', zt')) by (rewrite ?set_nth_length; assumption).
        rewrite (xflip_set P i c (xc', zc')) by assumption. reflexivity. }
      rewrite ER, XR.
      set (B := xflip P i). set (R := coef O (set_nth (set_nth P t II) c II) i).
      assert (HlB : length B = n) by (unfold B; rewrite xflip_length; exact Hl).
      rewrite (get_upd_same (upd B c (fl xc' (get i c))) t) by (rewrite upd_length; lia).
      rewrite (get_upd_other (upd B c (fl xc' (get i c))) t c) by congruence.
      rewrite (get_upd_same B c) by lia.
      rewrite !(upd2_over B c t) by exact Hct.
      set (b0 := get i c). set (b1 := get i t).
      assert (Hb0 : b0 < 2) by (apply (wf_get n); split; assumption).
      assert (Hb1 : b1 < 2) by (apply (wf_get n); split; assumption).
      set (phi := fun v0 v1 => psi (upd (upd B c v0) t v1)).
      transitivity (R * (sgn O r * sum4 (fun v0 v1 => mget O G (b0 * 2 + b1) (v0 * 2 + v1)
                                  * (c1 O (xc, zc) v0 * (c1 O (xt, zt) v1 * phi (fl xc v0) (fl xt v1)))))).
      { unfold phi, sum4. simpl Nat.add. simpl Nat.mul. ring. }
      rewrite lhs2 by assumption. rewrite HG, Ef. rewrite <- rhs2 by assumption.
      unfold phi, sum4. simpl Nat.add. simpl Nat.mul. ring.
    Qed.
  End Two.

End Lift.
