(* C13.D5 — clifford24_group_ok: exhaustive, by vm_compute in the exact field K8. *)
From Coq Require Import List Bool ZArith Arith.
From VF Require Import Base.RingOps Base.Mat Base.K8 Base.Harness Gates.GateSpecs
  Cliff.Tableau Cliff.TableauSem Generated.TableauRules Cliff.CliffGroup.
Import ListNotations.

(* the regenerated merged_with and inverse tables are the model's then / inverse on the 24 tableaux *)
Lemma c24_merged_ok : map (map Some) c24_merged = model_merged.
Proof. vm_compute. reflexivity. Qed.
Lemma c24_inv_ok : map Some c24_inv = model_inv.
Proof. vm_compute. reflexivity. Qed.

(* 24 distinct tableaux; the matrix of each decompose_gate() word conjugates X and Z to the rows of its tableau and is
   unitary; merged_with is the matrix product up to a power of zeta_8; the inverse table gives inverses up to phase;
   the named elements are the named matrices (phase included) *)
Theorem clifford24_group_ok : group24_check = true.
Proof. vm_compute. reflexivity. Qed.
