(* C13 — kron and reindex of the CH form (cirq/sim/clifford/stabilizer_state_ch_form.py: kron, reindex), the operations by
   which a simulator that keeps unentangled qubits in separate states joins them and finally puts the qubits in the
   requested order (definitions only; proofs in CHFormJoinProofs.v).

   reindex(axes): qubit i of the result is qubit axes[i] of the argument, so every matrix is read at [axes[i], axes[j]]
   and every vector at [axes[i]].  kron(other): the qubits of `other` are appended; matrices are block diagonal. *)
From Coq Require Import List Bool ZArith Arith PrimFloat.
From VF Require Import Base.RingOps Base.Mat Base.FloatInst Base.Harness Base.K8
  Cliff.Tableau Cliff.TableauPad Cliff.CHForm Cliff.CHFormHarness.
Import ListNotations.
Local Open Scope nat_scope.

Definition sel {A} (d : A) (axes : list nat) (l : list A) : list A := map (fun a => nth a l d) axes.
Definition sel2 (axes : list nat) (m : bmat) : bmat := map (sel false axes) (sel [] axes m).
Definition blockdiag (n1 n2 : nat) (a b : bmat) : bmat :=
  map (fun r => r ++ repeat false n2) a ++ map (fun r => repeat false n1 ++ r) b.

Section Join.
  Context {K : Type} (O : Ops K).
  Definition ch_reindex (axes : list nat) (c : chst (K:=K)) : chst (K:=K) :=
    mkCH (sel2 axes (chF c)) (sel2 axes (chG c)) (sel2 axes (chM c)) (sel 0%Z axes (chgam c))
         (sel false axes (chv c)) (sel false axes (chs c)) (chom c).
  Definition ch_kron (n1 n2 : nat) (a b : chst (K:=K)) : chst (K:=K) :=
    mkCH (blockdiag n1 n2 (chF a) (chF b)) (blockdiag n1 n2 (chG a) (chG b)) (blockdiag n1 n2 (chM a) (chM b))
         (chgam a ++ chgam b) (chv a ++ chv b) (chs a ++ chs b) (kmul O (chom a) (chom b)).
End Join.

(* what the two operations mean for the amplitudes: digit i of the new basis state is digit axes[i] of the old one *)
Definition old_digits (n : nat) (axes : list nat) (y : bvec) : bvec :=
  map (fun i => match index_of i axes with Some j => bget y j | None => false end) (seq 0 n).

(* ---- checker of the correspondence run (float instance) ---- *)
Inductive jstep :=
| JKron (n1 n2 : nat) (other after : chst (K:=FC))
| JReindex (axes : list nat) (after : chst (K:=FC)).
Definition jstep_ok (p : chst (K:=FC) * jstep) : bool :=
  match snd p with
  | JKron n1 n2 other after => ch_eqb (ch_kron FOps n1 n2 (fst p) other) after
  | JReindex axes after => ch_eqb (ch_reindex axes (fst p)) after
  end.
Definition bad_joins (l : list (chst (K:=FC) * jstep)) : list nat := failing jstep_ok l.

(* ---- exact small checks in K8 ---- *)
Fixpoint perms (l : list nat) (fuel : nat) : list (list nat) :=
  match fuel with
  | 0 => [[]]
  | S f => match l with
           | [] => [[]]
           | _ => flat_map (fun a => map (cons a) (perms (filter (fun b => negb (Nat.eqb a b)) l) f)) l
           end
  end.
Definition states_of (n : nat) (ws : list (list (cgate * K8))) : list (chst (K:=K8)) :=
  flat_map (fun w => match ch_run K8Ops w (ch_zero K8Ops n) with Some c => [c] | None => [] end) ws.
(* amplitudes of the reindexed state are the amplitudes of the state at the permuted digits, for every permutation *)
Definition reindex_ok (n : nat) (cs : list (chst (K:=K8))) : bool :=
  forallb (fun c => forallb (fun axes => forallb (fun y =>
      k8_eqb (ch_amp K8Ops (ch_reindex axes c) y) (ch_amp K8Ops c (old_digits n axes y))) (all_bits n))
    (perms (seq 0 n) n)) cs.
(* amplitudes of the joined state are the products of the amplitudes *)
Definition kron_ok (n1 n2 : nat) (cs1 cs2 : list (chst (K:=K8))) : bool :=
  forallb (fun a => forallb (fun b => forallb (fun y1 => forallb (fun y2 =>
      k8_eqb (ch_amp K8Ops (ch_kron K8Ops n1 n2 a b) (y1 ++ y2)) (kmul K8Ops (ch_amp K8Ops a y1) (ch_amp K8Ops b y2)))
    (all_bits n2)) (all_bits n1)) cs2) cs1.
