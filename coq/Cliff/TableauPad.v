(* C13 — a multi-qubit CliffordGate object acting on a tableau state (ops/clifford_gate.py: _pad_tableau and
   CliffordGate._act_on_), definitions only; proofs are in TableauPadProofs.v.

   The gate carries a tableau on k qubits (row j = image of X_j, row k+j = image of Z_j).  Acting with it on the qubits
   axes = [a_0 .. a_{k-1}] of an n-qubit state is `state.then(padded)`, where the padded tableau is the n-qubit tableau of
   the same gate placed on those axes: generator a_j goes to row j of the gate with bit i of the row moved to position
   a_i, every other generator goes to itself. *)
From Coq Require Import List Bool ZArith Arith.
From VF Require Import Cliff.Tableau.
Import ListNotations.

(* position of a in axes *)
Fixpoint index_of (a : nat) (axes : list nat) : option nat :=
  match axes with
  | [] => None
  | b :: r => if Nat.eqb a b then Some 0 else match index_of a r with Some j => Some (S j) | None => None end
  end.
(* bit i of the result is bit j of `bits` when i = a_j, and I elsewhere *)
Definition scatter_bits (n : nat) (axes : list nat) (bits : list pbit) : list pbit :=
  map (fun i => match index_of i axes with Some j => nth j bits (false, false) | None => (false, false) end) (seq 0 n).
Definition scatter_row (n : nat) (axes : list nat) (row : prow) : prow := mkRow (scatter_bits n axes (rbits row)) (rsign row).
Definition pad_half (k n : nat) (axes : list nat) (t : tableau) (off : nat) (p : pbit) : tableau :=
  map (fun i => match index_of i axes with
                | Some j => scatter_row n axes (nth (off + j) t (zero_row k))
                | None => mkRow (unit_bits n i p) false
                end) (seq 0 n).
Definition pad_tab (k n : nat) (axes : list nat) (t : tableau) : tableau :=
  pad_half k n axes t 0 (true, false) ++ pad_half k n axes t k (false, true).

(* the inputs _pad_tableau accepts: k distinct axes below n *)
Fixpoint nodupb (l : list nat) : bool :=
  match l with [] => true | a :: r => negb (existsb (Nat.eqb a) r) && nodupb r end.
Definition axes_valid (k n : nat) (axes : list nat) : bool :=
  Nat.eqb (length axes) k && forallb (fun a => Nat.ltb a n) axes && nodupb axes.

(* CliffordGate._act_on_ on a CliffordTableauSimulationState *)
Definition act_cgate (k n : nat) (axes : list nat) (gate cur : tableau) : option tableau :=
  if axes_valid k n axes then Some (tab_then n cur (pad_tab k n axes gate)) else None.

(* the same gate vocabulary placed on the axes: what the padded tableau must be the tableau of *)
Definition remap (axes : list nat) (a : nat) : nat := nth a axes 0.
Definition remap_gate (axes : list nat) (g : cgate) : cgate :=
  match g with
  | CX_ q a => CX_ q (remap axes a) | CY_ q a => CY_ q (remap axes a) | CZ_ q a => CZ_ q (remap axes a)
  | CH_ q a => CH_ q (remap axes a)
  | CCZ_ q c t => CCZ_ q (remap axes c) (remap axes t) | CCX_ q c t => CCX_ q (remap axes c) (remap axes t)
  | CSWAP_ q c t => CSWAP_ q (remap axes c) (remap axes t)
  | CPhase_ => CPhase_
  end.
Definition gate_axes_ok (k : nat) (g : cgate) : Prop :=
  match g with
  | CX_ _ a | CY_ _ a | CZ_ _ a | CH_ _ a => a < k
  | CCZ_ _ c t | CCX_ _ c t | CSWAP_ _ c t => c < k /\ t < k /\ c <> t
  | CPhase_ => True
  end.
