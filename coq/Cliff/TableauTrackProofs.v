(* C13.D2 — circuits: by induction over the op list every row of the tableau is U (initial row) U^dagger
   (stated without inverses: U (P psi) = P' (U psi) for every state psi), and the stabilizer rows of the
   tableau stabilize the evolved state.  Uses the local lifting lemmas of TableauLiftProofs.v. *)
From Coq Require Import Ring List ZArith Bool Arith Lia.
From VF Require Import Base.RingOps Base.Mat Base.Tensor Base.TensorProofs Gates.GateSpecs Cliff.Tableau Cliff.TableauSem
  Cliff.TableauLiftProofs.
Import ListNotations.

Section Track.
  Context {K : Type} (O : Ops K) (L : Laws O).
  Add Ring Kring : (law_ring O L).
  Infix "+" := (kadd O). Infix "*" := (kmul O). Infix "-" := (ksub O).
  Notation "- a" := (kopp O a).
  Notation z0 := (k0 O). Notation z1 := (k1 O). Notation ii := (ki O).

  (* ---- circuits ---- *)
  Definition lg_apply (g : lgate (K:=K)) (psi : tensor (K:=K)) : tensor :=
    apply O (mat_of O (rop_dims (lg_rop g)) (rop_m (lg_rop g))) (rop_dims (lg_rop g)) (rop_ax (lg_rop g)) psi.
  Definition lg_run (gs : list (lgate (K:=K))) (psi : tensor (K:=K)) : tensor := run O (map lg_rop gs) psi.
  Definition rows_after (gs : list (lgate (K:=K))) (row : prow) : prow := fold_left (fun r g => lg_row (K:=K) g r) gs row.
  Definition tab_after (gs : list (lgate (K:=K))) (t : tableau) : tableau := fold_left (fun t g => lg_tab (K:=K) g t) gs t.

  Lemma lg_run_cons g gs psi : lg_run (g :: gs) psi = lg_run gs (lg_apply g psi).
  Proof. reflexivity. Qed.

  Lemma lg_lift n g : lg_ok O n g -> forall row psi i, length (rbits row) = n -> wf n i ->
    lg_apply g (pauli_act O row psi) i = pauli_act O (lg_row g row) (lg_apply g psi) i.
  Proof.
    destruct g as [G f a|G f c t]; unfold lg_apply; simpl.
    - intros [[a0 [a1 [a2 [a3 ->]]]] [Ha HG]] row psi i Hr Hw. apply (lift1 O L a0 a1 a2 a3 f a n); assumption.
    - intros [[[[[g00 g01] g02] g03] [[[[g10 g11] g12] g13] [[[[g20 g21] g22] g23] [[[[g30 g31] g32] g33] ->]]]] [Hc [Ht [Hct HG]]]]
             row psi i Hr Hw.
      apply (lift2 O L g00 g01 g02 g03 g10 g11 g12 g13 g20 g21 g22 g23 g30 g31 g32 g33 f c t n); assumption.
  Qed.

  Lemma lg_row_length (g : lgate (K:=K)) row : length (rbits (lg_row g row)) = length (rbits row).
  Proof.
    destruct g as [G f a|G f c t]; simpl.
    - unfold row_apply1. destruct (bit_at row a) as [x z]. destruct (f (x, z, rsign row)) as [[x' z'] r'].
      simpl. apply set_nth_length.
    - unfold row_apply2. destruct (bit_at row c) as [xc zc]. destruct (bit_at row t) as [xt zt].
      destruct (f (xc, zc, xt, zt, rsign row)) as [[[[xc' zc'] xt'] zt'] r']. simpl. rewrite !set_nth_length. reflexivity.
  Qed.

  Lemma lg_apply_ext n g (p q : tensor (K:=K)) : (forall j, wf n j -> p j = q j) ->
    forall i, wf n i -> lg_apply g p i = lg_apply g q i.
  Proof.
    intros H i Hw. destruct g as [G f a|G f c t]; unfold lg_apply; simpl.
    - rewrite !apply1_nf. rewrite !H by (apply wf_upd; [exact Hw|lia]). reflexivity.
    - rewrite !apply2_nf. rewrite !H by (apply wf_upd; [apply wf_upd; [exact Hw|lia]|lia]). reflexivity.
  Qed.

  Lemma lg_run_ext n gs : forall (p q : tensor (K:=K)), (forall j, wf n j -> p j = q j) ->
    forall i, wf n i -> lg_run gs p i = lg_run gs q i.
  Proof.
    induction gs as [|g gs IH]; intros p q H i Hw; [apply H; exact Hw|].
    rewrite !lg_run_cons. apply IH; [|exact Hw]. intros j Hj. apply (lg_apply_ext n); assumption.
  Qed.

  (* D2: after any Clifford circuit, U . (P psi) = P' . (U psi) where P' is the row the tableau rules produce,
     i.e. row' = U row U^dagger, for every n, row, state, index *)
  Theorem tableau_tracks n gs : Forall (lg_ok O n) gs ->
    forall row psi i, length (rbits row) = n -> wf n i ->
    lg_run gs (pauli_act O row psi) i = pauli_act O (rows_after gs row) (lg_run gs psi) i.
  Proof.
    induction 1 as [|g gs Hg Hgs IH]; intros row psi i Hr Hw; [reflexivity|].
    rewrite !lg_run_cons. unfold rows_after. simpl.
    rewrite (lg_run_ext n gs _ (pauli_act O (lg_row g row) (lg_apply g psi))).
    - apply IH; [rewrite lg_row_length; exact Hr|exact Hw].
    - intros j Hj. apply (lg_lift n); assumption.
    - exact Hw.
  Qed.

  (* ---- the initial tableau stabilizes the initial basis state ---- *)
  Lemma coef_allII P : forall i, (forall k, nth k P II = II) -> coef O P i = z1.
  Proof.
    induction P as [|p P IH]; intros [|d i] H; simpl; try reflexivity.
    rewrite (H 0 : p = II). simpl. rewrite IH; [ring|]. intros k. exact (H (S k)).
  Qed.
  Lemma nth_map_seq {A} (f : nat -> A) n k d : k < n -> nth k (map f (seq 0 n)) d = f k.
  Proof.
    intros H. rewrite (nth_indep _ d (f 0)) by (rewrite map_length, seq_length; exact H).
    rewrite map_nth, seq_nth by exact H. reflexivity.
  Qed.
  Lemma nth_unit_bits n j p k : nth k (unit_bits n j p) II = if Nat.eqb j k && Nat.ltb k n then p else II.
  Proof.
    unfold unit_bits. destruct (Nat.ltb k n) eqn:Hk.
    - apply Nat.ltb_lt in Hk. rewrite nth_map_seq by exact Hk. rewrite andb_true_r. reflexivity.
    - apply Nat.ltb_ge in Hk. rewrite nth_overflow by (rewrite map_length, seq_length; exact Hk). rewrite andb_false_r. reflexivity.
  Qed.
  Lemma unit_bits_length n j p : length (unit_bits n j p) = n.
  Proof. unfold unit_bits. rewrite map_length, seq_length. reflexivity. Qed.
  Lemma coef_unit_bits n j p i : j < n -> length i = n -> coef O (unit_bits n j p) i = c1 O p (get i j).
  Proof.
    intros Hj Hl. rewrite (coef_split O L (unit_bits n j p) i j) by (rewrite unit_bits_length; lia).
    rewrite nth_unit_bits. rewrite Nat.eqb_refl. replace (Nat.ltb j n) with true by (symmetry; apply Nat.ltb_lt; exact Hj). simpl.
    rewrite coef_allII; [ring|]. intros k. destruct (Nat.eq_dec j k) as [<-|Hne].
    - apply nth_set_nth_same. rewrite unit_bits_length. exact Hj.
    - rewrite nth_set_nth_other by exact Hne. rewrite nth_unit_bits.
      replace (Nat.eqb j k) with false by (symmetry; apply Nat.eqb_neq; exact Hne). reflexivity.
  Qed.
  Lemma xflip_nox P : forall i, (forall k, fst (nth k P II) = false) -> xflip P i = i.
  Proof.
    induction P as [|p P IH]; intros [|d i] H; simpl; try reflexivity.
    rewrite (H 0 : fst p = false). simpl. f_equal. apply IH. intros k. exact (H (S k)).
  Qed.
  Lemma idx_eqb_eq a : forall b, idx_eqb a b = true -> a = b.
  Proof.
    induction a as [|x a IH]; intros [|y b] H; simpl in H; try discriminate; [reflexivity|].
    apply andb_prop in H. destruct H as [H1 H2]. apply Nat.eqb_eq in H1. f_equal; [exact H1|apply IH; exact H2].
  Qed.
  Lemma get_map_b2n bits j : get (map b2n bits) j = b2n (nth j bits false).
  Proof. unfold get. change 0 with (b2n false). apply map_nth. Qed.

  Lemma ket_stabilized n bits j : length bits = n -> j < n -> forall i, wf n i ->
    pauli_act O (mkRow (unit_bits n j (false, true)) (nth j bits false)) (ket O bits) i = ket O bits i.
  Proof.
    intros Hbits Hj i [Hl Hb]. unfold pauli_act. simpl rbits. simpl rsign.
    rewrite xflip_nox.
    2:{ intros k. rewrite nth_unit_bits. destruct (Nat.eqb j k && Nat.ltb k n); reflexivity. }
    rewrite coef_unit_bits by assumption.
    unfold ket. destruct (idx_eqb i (map b2n bits)) eqn:E; [|ring].
    apply idx_eqb_eq in E. rewrite E. rewrite get_map_b2n. destruct (nth j bits false); simpl; ring.
  Qed.

  Lemma tab_after_map gs : forall t, tab_after gs t = map (rows_after gs) t.
  Proof.
    induction gs as [|g gs IH]; intros t; simpl.
    - symmetry. apply map_id.
    - unfold tab_after, rows_after in *. simpl. rewrite IH. unfold lg_tab. rewrite map_map. reflexivity.
  Qed.

  (* corollary: every stabilizer row of the tableau stabilizes the evolved state *)
  Theorem stabilizers_stabilize n bits gs : length bits = n -> Forall (lg_ok O n) gs ->
    forall row, In row (skipn n (tab_after gs (init_tableau n bits))) ->
    forall i, wf n i -> pauli_act O row (lg_run gs (ket O bits)) i = lg_run gs (ket O bits) i.
  Proof.
    intros Hbits Hgs row Hin i Hw. rewrite tab_after_map in Hin. unfold init_tableau in Hin.
    rewrite skipn_map, skipn_app in Hin. rewrite map_length, seq_length, Nat.sub_diag in Hin.
    rewrite skipn_all2 in Hin by (rewrite map_length, seq_length; lia). simpl in Hin.
    apply in_map_iff in Hin. destruct Hin as [row0 [<- Hin]].
    apply in_map_iff in Hin. destruct Hin as [j [<- Hj]]. apply in_seq in Hj.
    rewrite <- (tableau_tracks n gs Hgs) by (first [exact Hw | simpl; apply unit_bits_length]).
    apply (lg_run_ext n); [|exact Hw]. intros k Hk. apply ket_stabilized; [exact Hbits|lia|exact Hk].
  Qed.

  (* ---- what pauli_act means: a string with a single non-identity factor acts as that Pauli matrix on that axis
     (ties the coefficients c1 / the flips fl to the matrices pm of TableauSem.v) ---- *)
  Theorem pauli_act_single n a x z r (P : list pbit) (psi : tensor (K:=K)) i :
    a < n -> length P = n -> (forall k, nth k P II = II) -> wf n i ->
    pauli_act O (mkRow (set_nth P a (x, z)) r) psi i
    = apply O (mat_of O [2] (pms1 O (x, z, r))) [2] [a] psi i.
  Proof.
    intros Ha HlP HP [Hl Hb]. unfold pauli_act. simpl rbits. simpl rsign.
    rewrite (coef_set O L P i a (x, z)) by lia.
    rewrite (xflip_set P i a (x, z)) by lia.
    rewrite coef_allII.
    2:{ intros k. destruct (Nat.eq_dec a k) as [<-|Hne]; [apply nth_set_nth_same; unfold pbit in *; lia|].
        rewrite nth_set_nth_other by exact Hne. apply HP. }
    rewrite xflip_nox by (intros k; rewrite HP; reflexivity).
    rewrite apply1_nf. simpl fst.
    assert (Hg : get i a < 2) by (apply (wf_get n); split; assumption).
    destruct (get i a) as [|[|b]] eqn:Eg; [| |lia]; destruct x, z, r; simpl fl; cbv -[kadd kmul kopp ksub kconj k0 k1 ki khalf ks2 upd]; ring.
  Qed.
End Track.
