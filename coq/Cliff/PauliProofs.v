(* C14 proofs: the Pauli-string algebra of Cliff/Pauli.v against its matrix semantics, over any ring with
   i*i = -1 (PLaws).  The n-qubit lift goes through tabulated entry functions: a Kronecker product of 2x2
   matrices is the table of a product of entries, and a sum over all bit strings of a product of per-position
   factors is the product of the per-position sums. *)
From Coq Require Import List ZArith Bool Ring Lia Arith QArith Qcanon.
From VF Require Import Base.RingOps Base.Mat Cliff.Pauli Generated.PauliTables.
Import ListNotations.
Close Scope Z_scope. Close Scope Q_scope. Close Scope Qc_scope.

(* ---------- the regenerated tables are the model's decision functions (finite, by computation) ---------- *)
Lemma atom_table_domain : map (fun r => match r with (l, o, s, _, _) => (l, o, s) end) atom_table = atom_domain.
Proof. vm_compute. reflexivity. Qed.
Lemma atom_table_model :
  forallb (fun r => match r with (l, o, s, n, ret) =>
     (pcode (pxor (pauli_of_code l) (pauli_of_code o)) =? n)%Z
     && (atom_phase (pauli_of_code l) (pauli_of_code o) s =? ret)%Z end) atom_table = true.
Proof. vm_compute. reflexivity. Qed.
Lemma vphase_table_model :
  map (fun r => match r with (l, r', _) => (l, r') end) vphase_table
    = flat_map (fun l => map (fun o => (l, o)) [0; 1; 2; 3]%Z) [0; 1; 2; 3]%Z
  /\ forallb (fun r => match r with (l, r', k) =>
       ((vphase1 (pauli_of_code l) (pauli_of_code r')) mod 4 =? k)%Z end) vphase_table = true.
Proof. split; vm_compute; reflexivity. Qed.
Lemma ppp_table_model :
  map (fun r => match r with (a, b, _, _) => (a, b) end) ppp_table
    = flat_map (fun l => map (fun o => (l, o)) [0; 1; 2; 3]%Z) [1; 2; 3]%Z
  /\ forallb (fun r => match r with (a, b, k, c) =>
       ((ppp_phase (pauli_of_code a) (pauli_of_code b)) mod 4 =? k)%Z
       && (pcode (ppp_letter (pauli_of_code a) (pauli_of_code b)) =? c)%Z end) ppp_table = true.
Proof. split; vm_compute; reflexivity. Qed.

(* all phase functions agree with the reference exponent mul_phase (a.b = i^(mul_phase a b) (a xor b)) *)
Lemma atom_phase_right a b : atom_phase b a (-1) = mul_phase a b.     (* sign -1: old . lhs *)
Proof. destruct a, b; reflexivity. Qed.
Lemma atom_phase_left a b : atom_phase a b 1 = mul_phase a b.          (* sign +1: lhs . old *)
Proof. destruct a, b; reflexivity. Qed.
Lemma vphase1_mul a b : vphase1 a b = mul_phase a b.
Proof. destruct a, b; reflexivity. Qed.
Lemma ppp_mul a b : a <> pI -> ppp_phase a b = mul_phase a b /\ ppp_letter a b = pxor a b.
Proof. destruct a, b; intros H; try (exfalso; apply H; reflexivity); split; reflexivity. Qed.
Lemma pxor_comm a b : pxor a b = pxor b a. Proof. destruct a, b; reflexivity. Qed.
Lemma pxor_I_l a : pxor pI a = a. Proof. destruct a; reflexivity. Qed.
Lemma pxor_I_r a : pxor a pI = a. Proof. destruct a; reflexivity. Qed.
Lemma pxor_self a : pxor a a = pI. Proof. destruct a; reflexivity. Qed.
Lemma mul_phase_I_l a : mul_phase pI a = 0%Z. Proof. destruct a; reflexivity. Qed.
Lemma mul_phase_I_r a : mul_phase a pI = 0%Z. Proof. destruct a; reflexivity. Qed.
Lemma mul_phase_swap a b : mul_phase a b = (- mul_phase b a)%Z. Proof. destruct a, b; reflexivity. Qed.
Lemma mul_phase_anti a b : mul_phase a b = 0%Z <-> anticommute a b = false.
Proof. destruct a, b; split; intro H; try reflexivity; try discriminate. Qed.

(* ---------- bit-string tabulation ---------- *)
Fixpoint bits (n : nat) : list (list bool) :=
  match n with 0 => [[]] | S m => map (cons false) (bits m) ++ map (cons true) (bits m) end.
Lemma bits_nonempty n : bits n <> [].
Proof. induction n; simpl; [discriminate|]. destruct (bits n); [contradiction|discriminate]. Qed.

Section Proofs.
  Context {K : Type} (O : Ops K) (L : PLaws O).
  Add Ring Kring : (plaw_ring O L).
  Infix "+" := (kadd O). Infix "*" := (kmul O). Infix "-" := (ksub O).
  Notation "- a" := (kopp O a).
  Notation z0 := (k0 O). Notation z1 := (k1 O). Notation ii := (ki O).
  Notation Kmat := (matrix (K:=K)).

  Notation id_matrix := (id_matrix O). Notation plike_matrix := (plike_matrix O). Notation lin_ip := (lin_ip O).
  Notation atom_row_ok := (atom_row_ok O).

  Lemma ii2 : ii * ii = - z1. Proof. exact (plaw_i O L). Qed.

  (* ----- finite sums ----- *)
  Lemma ksum_app a b : ksum O (a ++ b) = ksum O a + ksum O b.
  Proof. induction a as [|x a IH]; simpl; [ring|]. unfold ksum in *. simpl. rewrite IH. ring. Qed.
  Lemma ksum_scale {A} c (f : A -> K) l : ksum O (map (fun x => c * f x) l) = c * ksum O (map f l).
  Proof. induction l as [|x l IH]; unfold ksum in *; simpl; [ring|]. rewrite IH. ring. Qed.
  Lemma ksum_ext {A} (f g : A -> K) l : (forall x, f x = g x) -> ksum O (map f l) = ksum O (map g l).
  Proof. intros H. f_equal. apply map_ext. exact H. Qed.
  Lemma ksum_plus {A} (f g : A -> K) l :
    ksum O (map (fun x => f x + g x) l) = ksum O (map f l) + ksum O (map g l).
  Proof. induction l as [|x l IH]; unfold ksum in *; simpl; [ring|]. rewrite IH. ring. Qed.
  Lemma ksum_swap {A B} (f : A -> B -> K) la lb :
    ksum O (map (fun a => ksum O (map (fun b => f a b) lb)) la)
    = ksum O (map (fun b => ksum O (map (fun a => f a b) la)) lb).
  Proof.
    induction la as [|a la IH]; simpl.
    - induction lb as [|b lb IHb]; unfold ksum in *; simpl; [reflexivity|]. rewrite <- IHb. ring.
    - change (ksum O (?x :: ?r)) with (x + ksum O r). rewrite IH. rewrite <- ksum_plus. reflexivity.
  Qed.
  Lemma kdot_map {A} (f g : A -> K) l : kdot O (map f l) (map g l) = ksum O (map (fun x => f x * g x) l).
  Proof. unfold kdot. induction l as [|x l IH]; simpl; [reflexivity|]. unfold ksum in *. simpl. rewrite IH. reflexivity. Qed.

  (* ----- matrices given as tables of an entry function over an index list ----- *)
  Definition tabm (E : list (list bool)) (f : list bool -> list bool -> K) : Kmat :=
    map (fun r => map (f r) E) E.
  Lemma tabm_ext E f g : (forall r c, f r c = g r c) -> tabm E f = tabm E g.
  Proof. intros H. unfold tabm. apply map_ext. intros r. apply map_ext. intros c. apply H. Qed.

  Lemma nth_map_seq {A B} (h : A -> B) (l : list A) (d : A) :
    map (fun j => h (nth j l d)) (seq 0 (length l)) = map h l.
  Proof.
    rewrite <- (map_map (fun j => nth j l d) h). f_equal.
    induction l as [|x l IH]; simpl; [reflexivity|]. f_equal. rewrite <- seq_shift, map_map. exact IH.
  Qed.

  Lemma mtranspose_tabm E f : E <> [] -> mtranspose O (tabm E f) = tabm E (fun r c => f c r).
  Proof.
    intros HE. unfold mtranspose, mcols, tabm.
    assert (Hc : length (nth 0 (map (fun r => map (f r) E) E) []) = length E).
    { destruct E as [|e E']; [contradiction|]. simpl. rewrite map_length. reflexivity. }
    rewrite Hc. clear Hc.
    rewrite <- (nth_map_seq (fun c => map (fun r => f r c) E) E []).
    apply map_ext_in. intros j Hj. apply in_seq in Hj. simpl in Hj.
    unfold mcol. rewrite map_map. apply map_ext. intros r.
    rewrite (nth_indep _ z0 (f r [])) by (rewrite map_length; lia).
    apply (map_nth (f r)).
  Qed.

  Lemma mmul_tabm E f g : E <> [] ->
    mmul O (tabm E f) (tabm E g) = tabm E (fun r c => ksum O (map (fun m => f r m * g m c) E)).
  Proof.
    intros HE. unfold mmul. rewrite (mtranspose_tabm E g HE). unfold tabm.
    rewrite map_map. apply map_ext. intros r. rewrite map_map. apply map_ext. intros c.
    apply kdot_map.
  Qed.
  Lemma mscale_tabm E c f : mscale O c (tabm E f) = tabm E (fun r c' => c * f r c').
  Proof. unfold mscale, vscale, tabm. rewrite map_map. apply map_ext. intros r. rewrite map_map. reflexivity. Qed.
  Lemma combine_map2 {A B C} (f : A -> B) (g : A -> C) l : combine (map f l) (map g l) = map (fun x => (f x, g x)) l.
  Proof. induction l; simpl; congruence. Qed.
  Lemma madd_tabm E f g : madd O (tabm E f) (tabm E g) = tabm E (fun r c => f r c + g r c).
  Proof.
    unfold madd, vadd, tabm. rewrite combine_map2, map_map. apply map_ext. intros r. simpl.
    rewrite combine_map2, map_map. reflexivity.
  Qed.

  Definition tab2 (a : bool -> bool -> K) : Kmat := [[a false false; a false true]; [a true false; a true true]].
  Lemma kron_tabm a g n :
    kron O (tab2 a) (tabm (bits n) g)
    = tabm (bits (S n)) (fun r c => a (hd false r) (hd false c) * g (tl r) (tl c)).
  Proof.
    unfold kron, tab2, tabm. simpl. rewrite !app_nil_r.
    rewrite !map_app, !map_map.
    f_equal; apply map_ext; intros r; rewrite ?app_nil_r, !map_app, !map_map; simpl; reflexivity.
  Qed.

  (* ----- entries of Pauli matrices and of their Kronecker products ----- *)
  Definition p_entry (p : pauli) (r c : bool) : K :=
    match p, r, c with
    | pI, false, false => z1 | pI, false, true => z0 | pI, true, false => z0 | pI, true, true => z1
    | pX, false, false => z0 | pX, false, true => z1 | pX, true, false => z1 | pX, true, true => z0
    | pY, false, false => z0 | pY, false, true => - ii | pY, true, false => ii | pY, true, true => z0
    | pZ, false, false => z1 | pZ, false, true => z0 | pZ, true, false => z0 | pZ, true, true => - z1
    end.
  Lemma pauli_mat_tab p : pauli_mat O p = tab2 (p_entry p).
  Proof. destruct p; reflexivity. Qed.
  Fixpoint pl_entry (l : list pauli) (r c : list bool) : K :=
    match l with [] => z1 | p :: l' => p_entry p (hd false r) (hd false c) * pl_entry l' (tl r) (tl c) end.
  Lemma kron_list_tab l : kron_list O (map (pauli_mat O) l) = tabm (bits (length l)) (pl_entry l).
  Proof.
    induction l as [|p l IH]; simpl; [reflexivity|].
    rewrite IH, pauli_mat_tab, kron_tabm. reflexivity.
  Qed.
  Lemma dense_matrix_tab c l : dense_matrix O c l = tabm (bits (length l)) (fun r c' => c * pl_entry l r c').
  Proof. unfold dense_matrix. rewrite kron_list_tab, mscale_tabm. reflexivity. Qed.

  (* ----- powers of i ----- *)
  Lemma ipow_add a b : ipow O (a + b)%Z = ipow O a * ipow O b.
  Proof.
    unfold ipow. rewrite Z.add_mod by lia.
    assert (Ha := Z.mod_pos_bound a 4 ltac:(lia)). assert (Hb := Z.mod_pos_bound b 4 ltac:(lia)).
    set (x := (a mod 4)%Z) in *. set (y := (b mod 4)%Z) in *.
    assert (Hx : (x = 0 \/ x = 1 \/ x = 2 \/ x = 3)%Z) by lia.
    assert (Hy : (y = 0 \/ y = 1 \/ y = 2 \/ y = 3)%Z) by lia.
    destruct Hx as [-> | [-> | [-> | ->]]]; destruct Hy as [-> | [-> | [-> | ->]]]; cbn; ring [ii2].
  Qed.
  Lemma ipow_land k : ipow O (Z.land k 3) = ipow O k.
  Proof. unfold ipow. change 3%Z with (Z.ones 2). rewrite Z.land_ones by lia. change (2 ^ 2)%Z with 4%Z. rewrite Z.mod_mod by lia. reflexivity. Qed.
  Lemma ipow_0 : ipow O 0 = z1. Proof. reflexivity. Qed.
  Lemma ipow_mod k : ipow O (k mod 4) = ipow O k.
  Proof. unfold ipow. rewrite Z.mod_mod by lia. reflexivity. Qed.

  (* ----- the single-qubit multiplication table, as matrix entries ----- *)
  Lemma p_entry_mul a b r c :
    p_entry a r false * p_entry b false c + p_entry a r true * p_entry b true c
    = ipow O (mul_phase a b) * p_entry (pxor a b) r c.
  Proof. destruct a, b, r, c; cbn; ring [ii2]. Qed.

  (* pauli_mul_sound for one qubit, on the matrices themselves *)
  Theorem pauli_mul_sound_1q a b :
    mmul O (pauli_mat O a) (pauli_mat O b) = mscale O (ipow O (mul_phase a b)) (pauli_mat O (pxor a b)).
  Proof. destruct a, b; cbn; repeat (apply (f_equal2 cons); [|try reflexivity]); try reflexivity; ring [ii2]. Qed.

  (* every row of the regenerated atom table is a true statement about 2x2 matrices:
     sign = -1 (inplace_left_multiply_by, PauliString.__mul__): old . lhs; sign = +1: lhs . old *)
  Theorem atom_table_sound : Forall atom_row_ok atom_table.
  Proof.
    repeat (apply Forall_cons; [cbn; repeat (apply (f_equal2 cons); [|try reflexivity]); try reflexivity; ring [ii2]|]).
    apply Forall_nil.
  Qed.

  (* ----- lift to n positions ----- *)
  Fixpoint zip_xor (a b : list pauli) : list pauli :=
    match a, b with x :: a', y :: b' => pxor x y :: zip_xor a' b' | _, _ => [] end.
  Fixpoint zip_phase (a b : list pauli) : Z :=
    match a, b with x :: a', y :: b' => (mul_phase x y + zip_phase a' b')%Z | _, _ => 0%Z end.
  Lemma pl_entry_mul : forall la lb r c, length la = length lb ->
    ksum O (map (fun m => pl_entry la r m * pl_entry lb m c) (bits (length la)))
    = ipow O (zip_phase la lb) * pl_entry (zip_xor la lb) r c.
  Proof.
    induction la as [|a la IH]; intros [|b lb] r c Hlen; try discriminate.
    - cbn. ring.
    - simpl in Hlen. injection Hlen as Hlen. simpl bits. rewrite map_app, ksum_app, !map_map. simpl.
      rewrite (ksum_ext _ (fun m => (p_entry a (hd false r) false * p_entry b false (hd false c))
                                     * (pl_entry la (tl r) m * pl_entry lb m (tl c)))) by (intros; ring).
      rewrite (ksum_ext (fun m => p_entry a (hd false r) true * _ * _)
                        (fun m => (p_entry a (hd false r) true * p_entry b true (hd false c))
                                     * (pl_entry la (tl r) m * pl_entry lb m (tl c)))) by (intros; ring).
      rewrite !ksum_scale, (IH lb (tl r) (tl c) Hlen), ipow_add.
      transitivity ((p_entry a (hd false r) false * p_entry b false (hd false c)
                     + p_entry a (hd false r) true * p_entry b true (hd false c))
                    * (ipow O (zip_phase la lb) * pl_entry (zip_xor la lb) (tl r) (tl c))); [ring|].
      rewrite p_entry_mul. ring.
  Qed.
  Lemma zip_xor_length a b : length a = length b -> length (zip_xor a b) = length a.
  Proof. revert b. induction a as [|x a IH]; intros [|y b] H; try discriminate; simpl; [reflexivity|]. f_equal. apply IH. simpl in H. lia. Qed.

  (* product of two equally long dense strings, coefficient and phase included *)
  Theorem dense_mul_matrix ca cb la lb : length la = length lb ->
    mmul O (dense_matrix O ca la) (dense_matrix O cb lb)
    = dense_matrix O (ca * cb * ipow O (zip_phase la lb)) (zip_xor la lb).
  Proof.
    intros Hlen. rewrite !dense_matrix_tab, zip_xor_length by exact Hlen. rewrite <- Hlen.
    rewrite mmul_tabm by apply bits_nonempty. apply tabm_ext. intros r c.
    rewrite (ksum_ext _ (fun m => (ca * cb) * (pl_entry la r m * pl_entry lb m c))) by (intros; ring).
    rewrite ksum_scale, pl_entry_mul by exact Hlen. ring.
  Qed.

  (* ----- sparse strings: the dict loop of _imul_helper ----- *)
  Lemma is_pI_true p : is_pI p = true -> p = pI. Proof. destruct p; intro H; try discriminate; reflexivity. Qed.
  Lemma pm_get_pop_same m q t : pm_get (pm_pop m q ++ t) q = pm_get t q.
  Proof.
    induction m as [|[k v] m IH]; simpl; [reflexivity|].
    destruct (Z.eqb_spec k q) as [->|Hne]; simpl; [exact IH|].
    destruct (Z.eqb_spec k q); [contradiction|exact IH].
  Qed.
  Lemma pm_get_pop_other m q t q' : q <> q' -> pm_get t q' = pI -> pm_get (pm_pop m q ++ t) q' = pm_get m q'.
  Proof.
    intros Hne Ht. induction m as [|[k v] m IH]; simpl; [exact Ht|].
    destruct (Z.eqb_spec k q) as [->|Hkq]; simpl.
    - destruct (Z.eqb_spec q q'); [contradiction|exact IH].
    - destruct (Z.eqb_spec k q'); [reflexivity|exact IH].
  Qed.
  Lemma pm_get_set m q p q' : pm_get (pm_set m q p) q' = if (q =? q')%Z then p else pm_get m q'.
  Proof.
    unfold pm_set. destruct (is_pI p) eqn:Hp.
    - apply is_pI_true in Hp. subst p. rewrite <- (app_nil_r (pm_pop m q)).
      destruct (Z.eqb_spec q q') as [->|Hne]; [apply pm_get_pop_same|apply pm_get_pop_other; [exact Hne|reflexivity]].
    - destruct (Z.eqb_spec q q') as [->|Hne].
      + rewrite pm_get_pop_same. simpl. rewrite Z.eqb_refl. reflexivity.
      + apply pm_get_pop_other; [exact Hne|]. simpl. destruct (Z.eqb_spec q q'); [contradiction|reflexivity].
  Qed.
  Lemma pm_get_notin m q : ~ In q (pm_keys m) -> pm_get m q = pI.
  Proof.
    induction m as [|[k v] m IH]; simpl; intros H; [reflexivity|].
    destruct (Z.eqb_spec k q) as [->|Hne]; [exfalso; apply H; left; reflexivity|]. apply IH. intros Hin. apply H. right. exact Hin.
  Qed.

  Definition items_phase (sign : Z) (m items : pmap) : Z :=
    fold_right (fun e acc => (atom_phase (snd e) (pm_get m (fst e)) sign + acc)%Z) 0%Z items.
  Lemma items_phase_ext sign m m' items :
    (forall e, In e items -> pm_get m' (fst e) = pm_get m (fst e)) -> items_phase sign m' items = items_phase sign m items.
  Proof.
    induction items as [|e items IH]; simpl; intros H; [reflexivity|].
    rewrite (H e (or_introl eq_refl)), IH; [reflexivity|]. intros e' He'. apply H. right. exact He'.
  Qed.
  Lemma imul_map_spec sign : forall items m ph, NoDup (pm_keys items) ->
    (forall q, pm_get (fst (fold_left (atom_step sign) items (m, ph))) q = pxor (pm_get items q) (pm_get m q))
    /\ snd (fold_left (atom_step sign) items (m, ph)) = (ph + items_phase sign m items)%Z.
  Proof.
    induction items as [|[q0 l0] items IH]; intros m ph Hnd.
    - simpl. split; [intros q; rewrite pxor_I_l; reflexivity|lia].
    - simpl in Hnd. inversion Hnd as [|? ? Hnotin Hnd']. subst.
      change (fold_left (atom_step sign) ((q0, l0) :: items) (m, ph))
        with (fold_left (atom_step sign) items
                (pm_set m q0 (pxor l0 (pm_get m q0)), (ph + atom_phase l0 (pm_get m q0) sign)%Z)).
      destruct (IH (pm_set m q0 (pxor l0 (pm_get m q0))) (ph + atom_phase l0 (pm_get m q0) sign)%Z Hnd') as [Hg Hp].
      split.
      + intros q. rewrite Hg, pm_get_set. simpl. destruct (Z.eqb_spec q0 q) as [->|Hne]; [|reflexivity].
        rewrite (pm_get_notin items q Hnotin), pxor_I_l. reflexivity.
      + rewrite Hp. simpl. rewrite (items_phase_ext sign m); [lia|].
        intros e He. rewrite pm_get_set. destruct (Z.eqb_spec q0 (fst e)) as [Heq|Hne]; [|reflexivity].
        exfalso. apply Hnotin. rewrite Heq. apply in_map. exact He.
  Qed.

  Definition sumZ (l : list Z) : Z := fold_right Z.add 0%Z l.
  Lemma sumZ_pick (qs : list qid) (q0 : qid) (v : Z) (h : qid -> Z) : NoDup qs -> In q0 qs -> h q0 = 0%Z ->
    sumZ (map (fun q => if (q0 =? q)%Z then v else h q) qs) = (v + sumZ (map h qs))%Z.
  Proof.
    intros Hnd Hin H0. induction qs as [|x qs IH]; [contradiction|].
    inversion Hnd as [|? ? Hx Hnd']. subst. simpl.
    destruct (Z.eqb_spec q0 x) as [->|Hne].
    - rewrite H0, Z.add_0_l. f_equal. f_equal. apply map_ext_in. intros q Hq.
      destruct (Z.eqb_spec x q) as [->|]; [contradiction|reflexivity].
    - destruct Hin as [Heq|Hin]; [congruence|]. rewrite (IH Hnd' Hin). lia.
  Qed.
  (* a sum over the items of a string is the sum over any duplicate-free qubit list containing its keys *)
  Lemma items_sum_reindex (g : qid -> pauli -> Z) (qs : list qid) : (forall q, g q pI = 0%Z) -> NoDup qs ->
    forall items, NoDup (pm_keys items) -> incl (pm_keys items) qs ->
    sumZ (map (fun e : qid * pauli => g (fst e) (snd e)) items) = sumZ (map (fun q : qid => g q (pm_get items q)) qs).
  Proof.
    intros Hg Hqs. induction items as [|[q0 l0] items IH]; intros Hnd Hincl.
    - simpl. clear Hqs Hincl. induction qs as [|x qs' IHq]; simpl; [reflexivity|]. rewrite Hg, <- IHq. reflexivity.
    - inversion Hnd as [|? ? Hnotin Hnd']. subst. simpl map at 1. simpl sumZ at 1.
      rewrite (IH Hnd') by (intros x Hx; apply Hincl; right; exact Hx).
      rewrite <- (sumZ_pick qs q0 (g q0 l0) (fun q => g q (pm_get items q)) Hqs).
      + f_equal. apply map_ext. intros q. simpl. destruct (Z.eqb_spec q0 q) as [->|]; reflexivity.
      + apply Hincl. left. reflexivity.
      + rewrite (pm_get_notin items q0 Hnotin). apply Hg.
  Qed.
  Lemma items_phase_sum sign m items :
    items_phase sign m items = sumZ (map (fun e => atom_phase (snd e) (pm_get m (fst e)) sign) items).
  Proof. induction items as [|e items IH]; simpl; [reflexivity|]. rewrite IH. reflexivity. Qed.
  Lemma zip_phase_letters qs A B :
    zip_phase (letters qs A) (letters qs B) = sumZ (map (fun q => mul_phase (pm_get A q) (pm_get B q)) qs).
  Proof. unfold letters. induction qs as [|q qs IH]; simpl; [reflexivity|]. rewrite IH. reflexivity. Qed.
  Lemma zip_xor_letters qs A B :
    zip_xor (letters qs A) (letters qs B) = map (fun q => pxor (pm_get A q) (pm_get B q)) qs.
  Proof. unfold letters. induction qs as [|q qs IH]; simpl; [reflexivity|]. rewrite IH. reflexivity. Qed.
  Lemma atom_phase_I old s : atom_phase pI old s = 0%Z. Proof. reflexivity. Qed.
  Lemma letters_length qs m : length (letters qs m) = length qs. Proof. apply map_length. Qed.

  (* the Mapping branch: sign = -1 multiplies the items on the right, sign = +1 on the left *)
  Theorem imul_items_sound_right qs (P : pstr) (items : pmap) :
    NoDup qs -> NoDup (pm_keys items) -> incl (pm_keys items) qs ->
    ps_matrix O qs (imul_items O (-1) P items) = mmul O (ps_matrix O qs P) (dense_matrix O z1 (letters qs items)).
  Proof.
    intros Hqs Hnd Hincl. unfold ps_matrix, imul_items, imul_map.
    destruct (imul_map_spec (-1) items (pm P) 0%Z Hnd) as [Hg Hp]. simpl pm. simpl coef.
    rewrite dense_mul_matrix by (rewrite !letters_length; reflexivity).
    rewrite ipow_land, Hp, Z.add_0_l, items_phase_sum.
    pose proof (items_sum_reindex (fun q l => atom_phase l (pm_get (pm P) q) (-1)) qs (fun q => atom_phase_I _ _) Hqs items Hnd Hincl) as Hre.
    cbv beta in Hre. rewrite Hre. clear Hre.
    rewrite zip_phase_letters, zip_xor_letters.
    replace (map (fun q => atom_phase (pm_get items q) (pm_get (pm P) q) (-1)) qs)
      with (map (fun q => mul_phase (pm_get (pm P) q) (pm_get items q)) qs)
      by (apply map_ext; intros q; symmetry; apply atom_phase_right).
    replace (letters qs (fst (fold_left (atom_step (-1)) items (pm P, 0%Z))))
      with (map (fun q => pxor (pm_get (pm P) q) (pm_get items q)) qs)
      by (unfold letters; apply map_ext; intros q; rewrite Hg; apply pxor_comm).
    f_equal. ring.
  Qed.
  Theorem imul_items_sound_left qs (P : pstr) (items : pmap) :
    NoDup qs -> NoDup (pm_keys items) -> incl (pm_keys items) qs ->
    ps_matrix O qs (imul_items O 1 P items) = mmul O (dense_matrix O z1 (letters qs items)) (ps_matrix O qs P).
  Proof.
    intros Hqs Hnd Hincl. unfold ps_matrix, imul_items, imul_map.
    destruct (imul_map_spec 1 items (pm P) 0%Z Hnd) as [Hg Hp]. simpl pm. simpl coef.
    rewrite dense_mul_matrix by (rewrite !letters_length; reflexivity).
    rewrite ipow_land, Hp, Z.add_0_l, items_phase_sum.
    pose proof (items_sum_reindex (fun q l => atom_phase l (pm_get (pm P) q) 1) qs (fun q => atom_phase_I _ _) Hqs items Hnd Hincl) as Hre.
    cbv beta in Hre. rewrite Hre. clear Hre.
    rewrite zip_phase_letters, zip_xor_letters.
    replace (map (fun q => atom_phase (pm_get items q) (pm_get (pm P) q) 1) qs)
      with (map (fun q => mul_phase (pm_get items q) (pm_get (pm P) q)) qs)
      by (apply map_ext; intros q; symmetry; apply atom_phase_left).
    replace (letters qs (fst (fold_left (atom_step 1) items (pm P, 0%Z))))
      with (map (fun q => pxor (pm_get items q) (pm_get (pm P) q)) qs)
      by (unfold letters; apply map_ext; intros q; rewrite Hg; reflexivity).
    f_equal. ring.
  Qed.

  (* ----- keys of the product: distinct keys stay distinct, no key is invented ----- *)
  Lemma pm_pop_keys_incl m q : incl (pm_keys (pm_pop m q)) (pm_keys m).
  Proof.
    induction m as [|[k v] m IH]; simpl; [apply incl_refl|].
    destruct (k =? q)%Z; simpl; [apply incl_tl; exact IH|].
    intros x [<-|Hx]; [left; reflexivity|right; apply IH; exact Hx].
  Qed.
  Lemma pm_pop_notin m q : ~ In q (pm_keys (pm_pop m q)).
  Proof.
    induction m as [|[k v] m IH]; simpl; [tauto|].
    destruct (Z.eqb_spec k q) as [->|Hne]; simpl; [exact IH|]. intros [H|H]; [contradiction|apply IH; exact H].
  Qed.
  Lemma pm_pop_nodup m q : NoDup (pm_keys m) -> NoDup (pm_keys (pm_pop m q)).
  Proof.
    induction m as [|[k v] m IH]; simpl; intros H; [constructor|].
    inversion H as [|? ? Hk Hm]. subst. destruct (k =? q)%Z; simpl; [apply IH; exact Hm|].
    constructor; [|apply IH; exact Hm]. intros Hin. apply Hk. apply (pm_pop_keys_incl m q). exact Hin.
  Qed.
  Lemma nodup_snoc {A} (l : list A) x : NoDup l -> ~ In x l -> NoDup (l ++ [x]).
  Proof.
    induction l as [|y l IH]; simpl; intros H Hx; [constructor; [tauto|constructor]|].
    inversion H as [|? ? Hy Hl]. subst. constructor.
    - intros Hin. apply in_app_or in Hin. destruct Hin as [Hin|[<-|[]]]; [contradiction|]. apply Hx. left. reflexivity.
    - apply IH; [exact Hl|]. intros Hin. apply Hx. right. exact Hin.
  Qed.
  Lemma pm_set_nodup m q p : NoDup (pm_keys m) -> NoDup (pm_keys (pm_set m q p)).
  Proof.
    intros H. unfold pm_set. destruct (is_pI p); [apply pm_pop_nodup; exact H|].
    unfold pm_keys. rewrite map_app. simpl. apply nodup_snoc; [apply pm_pop_nodup; exact H|apply pm_pop_notin].
  Qed.
  Lemma pm_set_incl m q p : incl (pm_keys (pm_set m q p)) (q :: pm_keys m).
  Proof.
    unfold pm_set. destruct (is_pI p).
    - apply incl_tl. apply pm_pop_keys_incl.
    - unfold pm_keys. rewrite map_app. simpl. intros x Hx. apply in_app_or in Hx. destruct Hx as [Hx|[<-|[]]].
      + right. apply (pm_pop_keys_incl m q). exact Hx.
      + left. reflexivity.
  Qed.
  Lemma imul_map_keys sign : forall items m ph, NoDup (pm_keys m) ->
    NoDup (pm_keys (fst (fold_left (atom_step sign) items (m, ph))))
    /\ incl (pm_keys (fst (fold_left (atom_step sign) items (m, ph)))) (pm_keys m ++ pm_keys items).
  Proof.
    induction items as [|[q0 l0] items IH]; intros m ph Hm.
    - simpl. split; [exact Hm|]. rewrite app_nil_r. apply incl_refl.
    - change (fold_left (atom_step sign) ((q0, l0) :: items) (m, ph))
        with (fold_left (atom_step sign) items
                (pm_set m q0 (pxor l0 (pm_get m q0)), (ph + atom_phase l0 (pm_get m q0) sign)%Z)).
      destruct (IH (pm_set m q0 (pxor l0 (pm_get m q0))) (ph + atom_phase l0 (pm_get m q0) sign)%Z
                   (pm_set_nodup m q0 _ Hm)) as [Hnd Hin].
      split; [exact Hnd|]. intros x Hx. apply Hin in Hx. apply in_app_or in Hx. simpl. apply in_or_app.
      destruct Hx as [Hx|Hx]; [|right; right; exact Hx].
      apply pm_set_incl in Hx. destruct Hx as [<-|Hx]; [right; left; reflexivity|left; exact Hx].
  Qed.
  Lemma imul_items_keys_ok sign qs (P : pstr) items :
    keys_ok qs (pm P) -> incl (pm_keys items) qs -> keys_ok qs (pm (imul_items O sign P items)).
  Proof.
    intros [Hnd Hin] Hitems. unfold imul_items, imul_map. simpl pm.
    destruct (imul_map_keys sign items (pm P) 0%Z Hnd) as [H1 H2]. split; [exact H1|].
    intros x Hx. apply H2 in Hx. apply in_app_or in Hx. destruct Hx; [apply Hin|apply Hitems]; assumption.
  Qed.
  Lemma imul_keys_ok sign qs (P Q : pstr) :
    keys_ok qs (pm P) -> incl (pm_keys (pm Q)) qs -> keys_ok qs (pm (imul O sign P Q)).
  Proof. intros HP HQ. unfold imul. apply (imul_items_keys_ok sign qs (mkP _ (pm P)) (pm Q)); assumption. Qed.
  Lemma keys_ok_nil qs : keys_ok qs []. Proof. split; [constructor|intros x []]. Qed.

  (* ----- scalars ----- *)
  Lemma dense_matrix_scale c c' l : mscale O c (dense_matrix O c' l) = dense_matrix O (c * c') l.
  Proof. rewrite !dense_matrix_tab, mscale_tabm. apply tabm_ext. intros; ring. Qed.
  Lemma dense_matrix_coef_ext c c' l : c = c' -> dense_matrix O c l = dense_matrix O c' l.
  Proof. intros ->. reflexivity. Qed.

  (* ----- D1: the product of PauliString / MutablePauliString objects ----- *)
  Theorem imul_sound_right qs (P Q : pstr) : NoDup qs -> keys_ok qs (pm Q) ->
    ps_matrix O qs (imul O (-1) P Q) = mmul O (ps_matrix O qs P) (ps_matrix O qs Q).
  Proof.
    intros Hqs [Hnd Hin]. unfold imul. rewrite imul_items_sound_right by assumption.
    unfold ps_matrix. simpl coef. simpl pm.
    rewrite !dense_mul_matrix by (rewrite !letters_length; reflexivity). apply dense_matrix_coef_ext. ring.
  Qed.
  Theorem imul_sound_left qs (P Q : pstr) : NoDup qs -> keys_ok qs (pm Q) ->
    ps_matrix O qs (imul O 1 P Q) = mmul O (ps_matrix O qs Q) (ps_matrix O qs P).
  Proof.
    intros Hqs [Hnd Hin]. unfold imul. rewrite imul_items_sound_left by assumption.
    unfold ps_matrix. simpl coef. simpl pm.
    rewrite !dense_mul_matrix by (rewrite !letters_length; reflexivity). apply dense_matrix_coef_ext. ring.
  Qed.

  (* identity string *)
  Lemma letters_nil qs : letters qs [] = map (fun _ => pI) qs. Proof. reflexivity. Qed.
  Lemma zip_phase_I_l {A} (qs : list A) l : zip_phase (map (fun _ : A => pI) qs) l = 0%Z.
  Proof. revert l. induction qs as [|q qs IH]; intros [|x l]; simpl; try reflexivity. rewrite IH, ?mul_phase_I_l. reflexivity. Qed.
  Lemma zip_phase_I_r {A} (qs : list A) l : zip_phase l (map (fun _ : A => pI) qs) = 0%Z.
  Proof. revert l. induction qs as [|q qs IH]; intros [|x l]; simpl; try reflexivity. rewrite IH, ?mul_phase_I_r. reflexivity. Qed.
  Lemma zip_xor_I_l {A} (qs : list A) l : length l = length qs -> zip_xor (map (fun _ : A => pI) qs) l = l.
  Proof. revert l. induction qs as [|q qs IH]; intros [|x l] H; try discriminate; simpl; [reflexivity|]. rewrite ?pxor_I_l, IH by (simpl in H; lia). reflexivity. Qed.
  Lemma zip_xor_I_r {A} (qs : list A) l : length l = length qs -> zip_xor l (map (fun _ : A => pI) qs) = l.
  Proof. revert l. induction qs as [|q qs IH]; intros [|x l] H; try discriminate; simpl; [reflexivity|]. rewrite ?pxor_I_r, IH by (simpl in H; lia). reflexivity. Qed.
  Lemma id_matrix_l qs c l : length l = length qs -> mmul O (id_matrix qs) (dense_matrix O c l) = dense_matrix O c l.
  Proof.
    intros H. unfold id_matrix. rewrite dense_mul_matrix by (rewrite map_length; lia).
    rewrite zip_phase_I_l, zip_xor_I_l by exact H. apply dense_matrix_coef_ext. rewrite ipow_0. ring.
  Qed.
  Lemma id_matrix_r qs c l : length l = length qs -> mmul O (dense_matrix O c l) (id_matrix qs) = dense_matrix O c l.
  Proof.
    intros H. unfold id_matrix. rewrite dense_mul_matrix by (rewrite map_length; lia).
    rewrite zip_phase_I_r, zip_xor_I_r by exact H. apply dense_matrix_coef_ext. rewrite ipow_0. ring.
  Qed.
  Lemma ps_matrix_empty qs : ps_matrix O qs (ps_empty O) = id_matrix qs. Proof. reflexivity. Qed.

  (* PauliString.__mul__ *)
  Theorem pauli_mul_sound qs (a b : pstr) : NoDup qs -> keys_ok qs (pm b) ->
    ps_matrix O qs (ps_mul O a b) = mmul O (ps_matrix O qs a) (ps_matrix O qs b).
  Proof.
    intros Hqs Hb. unfold ps_mul, ps_make, imul_contents, imul_seq. simpl fold_left.
    rewrite imul_sound_right; [|exact Hqs|apply imul_keys_ok; [apply keys_ok_nil|apply Hb]].
    rewrite (imul_sound_right qs (ps_empty O) b Hqs Hb), ps_matrix_empty.
    change (ps_matrix O qs b) with (dense_matrix O (coef b) (letters qs (pm b))).
    rewrite id_matrix_l by apply letters_length. reflexivity.
  Qed.
  (* number on either side, division by d when c = 1/d, negation *)
  Theorem ps_scale_sound qs (a : pstr) c : ps_matrix O qs (ps_scale O a c) = mscale O c (ps_matrix O qs a).
  Proof. unfold ps_matrix, ps_scale. simpl. rewrite dense_matrix_scale. apply dense_matrix_coef_ext. ring. Qed.
  Theorem ps_neg_sound qs (a : pstr) : ps_matrix O qs (ps_neg O a) = mscale O (- z1) (ps_matrix O qs a).
  Proof. unfold ps_matrix, ps_neg. simpl. rewrite dense_matrix_scale. apply dense_matrix_coef_ext. ring. Qed.
  Theorem ps_mul_num_sound qs (a : pstr) c : NoDup qs ->
    ps_matrix O qs (ps_mul_num O a c) = mscale O c (ps_matrix O qs a).
  Proof.
    intros Hqs. unfold ps_mul_num, ps_make, imul_contents, imul_seq. simpl fold_left.
    rewrite imul_sound_right; [|exact Hqs|apply keys_ok_nil].
    unfold ps_matrix. simpl coef. simpl pm. rewrite letters_nil.
    rewrite dense_mul_matrix by (rewrite letters_length, map_length; reflexivity).
    rewrite zip_phase_I_r, zip_xor_I_r, dense_matrix_scale by apply letters_length.
    apply dense_matrix_coef_ext. rewrite ipow_0. ring.
  Qed.

  (* ----- PAULI_STRING_LIKE contents: every atom multiplies on the stated side, sequences in order ----- *)
  Lemma imul_like_sound_right qs (P : pstr) x : NoDup qs -> plike_ok qs x ->
    ps_matrix O qs (imul_like O (-1) P x) = mmul O (ps_matrix O qs P) (plike_matrix qs x).
  Proof.
    intros Hqs Hx. destruct x as [p|c|m|]; simpl.
    - apply imul_sound_right; assumption.
    - unfold ps_matrix. simpl. rewrite dense_mul_matrix by (rewrite letters_length, map_length; reflexivity).
      rewrite zip_phase_I_r, zip_xor_I_r by apply letters_length. apply dense_matrix_coef_ext. rewrite ipow_0. ring.
    - destruct Hx as [H1 H2]. apply imul_items_sound_right; assumption.
    - unfold ps_matrix. rewrite id_matrix_r by apply letters_length. reflexivity.
  Qed.
  Lemma imul_like_sound_left qs (P : pstr) x : NoDup qs -> plike_ok qs x ->
    ps_matrix O qs (imul_like O 1 P x) = mmul O (plike_matrix qs x) (ps_matrix O qs P).
  Proof.
    intros Hqs Hx. destruct x as [p|c|m|]; simpl.
    - apply imul_sound_left; assumption.
    - unfold ps_matrix. simpl. rewrite dense_mul_matrix by (rewrite letters_length, map_length; reflexivity).
      rewrite zip_phase_I_l, zip_xor_I_l by apply letters_length. apply dense_matrix_coef_ext. rewrite ipow_0. ring.
    - destruct Hx as [H1 H2]. apply imul_items_sound_left; assumption.
    - unfold ps_matrix. rewrite id_matrix_l by apply letters_length. reflexivity.
  Qed.
  Lemma imul_like_keys_ok sign qs (P : pstr) x : keys_ok qs (pm P) -> plike_ok qs x -> keys_ok qs (pm (imul_like O sign P x)).
  Proof.
    intros HP Hx. destruct x as [p|c|m|]; simpl; try exact HP.
    - apply imul_keys_ok; [exact HP|apply Hx].
    - apply imul_items_keys_ok; [exact HP|apply Hx].
  Qed.
  (* sign = -1: ((P . x1) . x2) ... ; sign = +1 processes the reversed list, every item on the left: x1 . (x2 . (... . P)) *)
  Lemma imul_fold_right qs : NoDup qs -> forall l (P : pstr), keys_ok qs (pm P) -> Forall (plike_ok qs) l ->
    ps_matrix O qs (fold_left (imul_like O (-1)) l P) = fold_left (fun M x => mmul O M (plike_matrix qs x)) l (ps_matrix O qs P)
    /\ keys_ok qs (pm (fold_left (imul_like O (-1)) l P)).
  Proof.
    intros Hqs. induction l as [|x l IH]; intros P HP Hl; simpl; [split; [reflexivity|exact HP]|].
    inversion Hl as [|? ? Hx Hl']. subst.
    destruct (IH (imul_like O (-1) P x) (imul_like_keys_ok _ qs P x HP Hx) Hl') as [H1 H2].
    split; [|exact H2]. rewrite H1, imul_like_sound_right by assumption. reflexivity.
  Qed.
  Lemma imul_fold_left qs : NoDup qs -> forall l (P : pstr), keys_ok qs (pm P) -> Forall (plike_ok qs) l ->
    ps_matrix O qs (fold_left (imul_like O 1) l P) = fold_left (fun M x => mmul O (plike_matrix qs x) M) l (ps_matrix O qs P)
    /\ keys_ok qs (pm (fold_left (imul_like O 1) l P)).
  Proof.
    intros Hqs. induction l as [|x l IH]; intros P HP Hl; simpl; [split; [reflexivity|exact HP]|].
    inversion Hl as [|? ? Hx Hl']. subst.
    destruct (IH (imul_like O 1 P x) (imul_like_keys_ok _ qs P x HP Hx) Hl') as [H1 H2].
    split; [|exact H2]. rewrite H1, imul_like_sound_left by assumption. reflexivity.
  Qed.
  (* PauliString(contents..., qubit_pauli_map=m, coefficient=c), inplace_left_multiply_by(iterable): P . (((I . x1) . x2) ...) *)
  Theorem imul_contents_sound_right qs (P : pstr) l : NoDup qs -> Forall (plike_ok qs) l ->
    ps_matrix O qs (imul_contents O (-1) P l)
    = mmul O (ps_matrix O qs P) (fold_left (fun M x => mmul O M (plike_matrix qs x)) l (id_matrix qs)).
  Proof.
    intros Hqs Hl. unfold imul_contents, imul_seq. change ((-1 =? 1)%Z) with false. cbv iota.
    destruct (imul_fold_right qs Hqs l (ps_empty O) (keys_ok_nil qs) Hl) as [H1 H2].
    rewrite imul_sound_right, H1 by assumption. reflexivity.
  Qed.
  (* inplace_right_multiply_by(iterable), __imul__: (x1 . (x2 . (... . I))) . P *)
  Theorem imul_contents_sound_left qs (P : pstr) l : NoDup qs -> Forall (plike_ok qs) l ->
    ps_matrix O qs (imul_contents O 1 P l)
    = mmul O (fold_left (fun M x => mmul O (plike_matrix qs x) M) (rev l) (id_matrix qs)) (ps_matrix O qs P).
  Proof.
    intros Hqs Hl. unfold imul_contents, imul_seq. change ((1 =? 1)%Z) with true. cbv iota.
    assert (Hl' : Forall (plike_ok qs) (rev l)) by (apply Forall_rev; exact Hl).
    destruct (imul_fold_left qs Hqs (rev l) (ps_empty O) (keys_ok_nil qs) Hl') as [H1 H2].
    rewrite imul_sound_left, H1 by assumption. reflexivity.
  Qed.
  Lemma plike_matrix_dense qs x : exists c l, plike_matrix qs x = dense_matrix O c l /\ length l = length qs.
  Proof.
    destruct x as [p|c|m|]; simpl.
    - exists (coef p), (letters qs (pm p)). split; [reflexivity|apply letters_length].
    - exists c, (map (fun _ => pI) qs). split; [reflexivity|apply map_length].
    - exists z1, (letters qs m). split; [reflexivity|apply letters_length].
    - exists z1, (map (fun _ => pI) qs). split; [reflexivity|apply map_length].
  Qed.
  Lemma id_plike_l qs x : mmul O (id_matrix qs) (plike_matrix qs x) = plike_matrix qs x.
  Proof. destruct (plike_matrix_dense qs x) as [c [l [-> Hl]]]. apply id_matrix_l. exact Hl. Qed.
  Lemma id_plike_r qs x : mmul O (plike_matrix qs x) (id_matrix qs) = plike_matrix qs x.
  Proof. destruct (plike_matrix_dense qs x) as [c [l [-> Hl]]]. apply id_matrix_r. exact Hl. Qed.
  Theorem mps_inplace_left_sound qs (P : pstr) x : NoDup qs -> plike_ok qs x ->
    ps_matrix O qs (mps_inplace_left O P x) = mmul O (ps_matrix O qs P) (plike_matrix qs x).
  Proof.
    intros Hqs Hx. assert (Hc : ps_matrix O qs (imul_contents O (-1) P [x]) = mmul O (ps_matrix O qs P) (plike_matrix qs x)).
    { rewrite imul_contents_sound_right by (first [assumption | constructor; [assumption|constructor]]). simpl.
      rewrite id_plike_l. reflexivity. }
    destruct x as [p|c|m|]; [apply (imul_like_sound_right qs P (LPS p))|apply (imul_like_sound_right qs P (LNum c))|exact Hc|exact Hc]; assumption.
  Qed.
  Theorem mps_inplace_right_sound qs (P : pstr) x : NoDup qs -> plike_ok qs x ->
    ps_matrix O qs (mps_inplace_right O P x) = mmul O (plike_matrix qs x) (ps_matrix O qs P).
  Proof.
    intros Hqs Hx. assert (Hc : ps_matrix O qs (imul_contents O 1 P [x]) = mmul O (plike_matrix qs x) (ps_matrix O qs P)).
    { rewrite imul_contents_sound_left by (first [assumption | constructor; [assumption|constructor]]). simpl.
      rewrite id_plike_r. reflexivity. }
    destruct x as [p|c|m|]; [apply (imul_like_sound_left qs P (LPS p))|apply (imul_like_sound_left qs P (LNum c))|exact Hc|exact Hc]; assumption.
  Qed.

  (* ----- D2: commutation ----- *)
  Fixpoint count_anti (a b : list pauli) : nat :=
    match a, b with x :: a', y :: b' => (if anticommute x y then 1 else 0) + count_anti a' b' | _, _ => 0 end.
  Lemma zip_phase_swap la lb : zip_phase la lb = (- zip_phase lb la)%Z.
  Proof. revert lb. induction la as [|x la IH]; intros [|y lb]; simpl; try reflexivity. rewrite (mul_phase_swap x y), (IH lb). lia. Qed.
  Lemma zip_xor_comm la lb : zip_xor la lb = zip_xor lb la.
  Proof. revert lb. induction la as [|x la IH]; intros [|y lb]; simpl; try reflexivity. rewrite pxor_comm, IH. reflexivity. Qed.
  Lemma zip_phase_parity la lb : ((2 * zip_phase la lb) mod 4 = (2 * Z.of_nat (count_anti la lb)) mod 4)%Z.
  Proof.
    revert lb. induction la as [|x la IH]; intros [|y lb]; simpl count_anti; simpl zip_phase; try reflexivity.
    specialize (IH lb). rewrite Nat2Z.inj_add.
    assert (Hm : ((mul_phase x y = 0 /\ anticommute x y = false)
                  \/ ((mul_phase x y = 1 \/ mul_phase x y = -1) /\ anticommute x y = true))%Z)
      by (destruct x, y; simpl; tauto).
    revert IH. generalize (zip_phase la lb) (count_anti la lb). intros z c IH.
    destruct Hm as [[-> ->]|[[-> | ->] ->]]; change (Z.of_nat 0) with 0%Z; change (Z.of_nat 1) with 1%Z;
      revert IH; generalize (Z.of_nat c); intros c' IH; Z.div_mod_to_equations; lia.
  Qed.
  Lemma ipow_2nat c : ipow O (2 * Z.of_nat c) = if Nat.even c then z1 else - z1.
  Proof.
    destruct (Nat.even c) eqn:He.
    - apply Nat.even_spec in He. destruct He as [k ->]. unfold ipow.
      replace ((2 * Z.of_nat (2 * k)) mod 4)%Z with 0%Z; [reflexivity|]. rewrite Nat2Z.inj_mul. simpl Z.of_nat.
      Z.div_mod_to_equations; lia.
    - assert (Ho : Nat.odd c = true) by (unfold Nat.odd; rewrite He; reflexivity).
      apply Nat.odd_spec in Ho. destruct Ho as [k ->]. unfold ipow.
      replace ((2 * Z.of_nat (2 * k + 1)) mod 4)%Z with 2%Z; [reflexivity|]. rewrite Nat2Z.inj_add, Nat2Z.inj_mul. simpl Z.of_nat.
      Z.div_mod_to_equations; lia.
  Qed.
  (* the sign law: P Q = (-1)^(number of anticommuting positions) Q P, coefficients included *)
  Theorem dense_commute_sign ca cb la lb : length la = length lb ->
    mmul O (dense_matrix O ca la) (dense_matrix O cb lb)
    = mscale O (if Nat.even (count_anti la lb) then z1 else - z1) (mmul O (dense_matrix O cb lb) (dense_matrix O ca la)).
  Proof.
    intros Hlen. rewrite !dense_mul_matrix, dense_matrix_scale by congruence. rewrite (zip_xor_comm lb la).
    apply dense_matrix_coef_ext.
    assert (He : ipow O (2 * Z.of_nat (count_anti la lb)) = ipow O (2 * zip_phase la lb))
      by (rewrite <- (ipow_mod (2 * Z.of_nat (count_anti la lb))), <- zip_phase_parity, ipow_mod; reflexivity).
    rewrite <- ipow_2nat, He.
    replace (zip_phase la lb) with (2 * zip_phase la lb + zip_phase lb la)%Z at 1 by (rewrite (zip_phase_swap lb la); lia).
    rewrite ipow_add. ring.
  Qed.
  Lemma mscale_one_dense c l : mscale O z1 (dense_matrix O c l) = dense_matrix O c l.
  Proof. rewrite dense_matrix_scale. apply dense_matrix_coef_ext. ring. Qed.
  Theorem dense_commute_iff ca cb la lb : length la = length lb ->
    (Nat.even (count_anti la lb) = true ->
       mmul O (dense_matrix O ca la) (dense_matrix O cb lb) = mmul O (dense_matrix O cb lb) (dense_matrix O ca la))
    /\ (Nat.even (count_anti la lb) = false ->
       mmul O (dense_matrix O ca la) (dense_matrix O cb lb)
       = mscale O (- z1) (mmul O (dense_matrix O cb lb) (dense_matrix O ca la))).
  Proof.
    intros Hlen. split; intros He; rewrite (dense_commute_sign ca cb la lb Hlen), He; [|reflexivity].
    rewrite dense_mul_matrix by congruence. apply mscale_one_dense.
  Qed.
  (* the dense test (phase of the product is real) and the sparse test (parity of differing shared positions) compute that parity *)
  Lemma zip_phase_even la lb : Z.even (zip_phase la lb) = Nat.even (count_anti la lb).
  Proof.
    revert lb. induction la as [|x la IH]; intros [|y lb]; simpl count_anti; simpl zip_phase; try reflexivity.
    specialize (IH lb). rewrite Z.even_add, IH.
    assert (Hm : ((mul_phase x y = 0 /\ anticommute x y = false)
                  \/ ((mul_phase x y = 1 \/ mul_phase x y = -1) /\ anticommute x y = true))%Z)
      by (destruct x, y; simpl; tauto).
    generalize (count_anti la lb). intros c.
    destruct Hm as [[-> ->]|[[-> | ->] ->]]; change (Z.even 0) with true; change (Z.even 1) with false;
      change (Z.even (-1)) with false; change (0 + c)%nat with c; change (1 + c)%nat with (S c);
      rewrite ?Nat.even_succ, <- ?Nat.negb_even; destruct (Nat.even c); reflexivity.
  Qed.
  Lemma vphase_zip la lb : length la = length lb -> vphase la lb = zip_phase la lb.
  Proof. revert lb. induction la as [|x la IH]; intros [|y lb] H; try discriminate; simpl; [reflexivity|]. rewrite vphase1_mul, IH by (simpl in H; lia). reflexivity. Qed.
  Theorem ds_commutes_spec la lb : length la = length lb -> ds_commutes la lb = Nat.even (count_anti la lb).
  Proof. intros H. unfold ds_commutes. rewrite vphase_zip by exact H. apply zip_phase_even. Qed.

  Lemma pm_mem_get m q : no_I m -> pm_mem m q = negb (is_pI (pm_get m q)).
  Proof.
    intros Hn. induction m as [|[k v] m IH]; simpl; [reflexivity|].
    destruct (Z.eqb_spec k q) as [->|Hne]; simpl.
    - assert (Hv := Hn (q, v) (or_introl eq_refl)). simpl in Hv. destruct v; try reflexivity. contradiction.
    - apply IH. intros e He. apply Hn. right. exact He.
  Qed.
  Lemma count_anti_letters qs A B :
    Z.of_nat (count_anti (letters qs A) (letters qs B))
    = sumZ (map (fun q : qid => if anticommute (pm_get A q) (pm_get B q) then 1%Z else 0%Z) qs).
  Proof.
    unfold letters. induction qs as [|q qs IH]; simpl; [reflexivity|].
    rewrite Nat2Z.inj_add, IH. destruct (anticommute (pm_get A q) (pm_get B q)); reflexivity.
  Qed.
  Theorem ps_commutes_spec qs a b : NoDup qs -> keys_ok qs a -> no_I a -> no_I b ->
    ps_commutes a b = Nat.even (count_anti (letters qs a) (letters qs b)).
  Proof.
    intros Hqs [Hnd Hin] Ha Hb. unfold ps_commutes. f_equal. apply Nat2Z.inj. rewrite count_anti_letters.
    pose proof (items_sum_reindex (fun q l => if anticommute l (pm_get b q) then 1%Z else 0%Z) qs
                  (fun q => eq_refl) Hqs a Hnd Hin) as Hre. cbv beta in Hre. rewrite <- Hre. clear Hre.
    clear Hnd Hin. induction a as [|[k v] a IH]; simpl; [reflexivity|].
    assert (Hv := Ha (k, v) (or_introl eq_refl)). simpl in Hv.
    assert (Ha' : no_I a) by (intros e He; apply Ha; right; exact He).
    rewrite (pm_mem_get b k Hb).
    assert (Hc : (negb (is_pI (pm_get b k)) && negb (pauli_eqb v (pm_get b k))) = anticommute v (pm_get b k)).
    { destruct v; [contradiction| | |]; destruct (pm_get b k); reflexivity. }
    rewrite Hc. destruct (anticommute v (pm_get b k)); simpl length; rewrite ?Nat2Z.inj_succ, (IH Ha'); lia.
  Qed.
  (* D2 at the level of PauliString._commutes_ *)
  Theorem pauli_commute_iff qs (a b : pstr) : NoDup qs -> keys_ok qs (pm a) -> no_I (pm a) -> no_I (pm b) ->
    (ps_commutes (pm a) (pm b) = true ->
       mmul O (ps_matrix O qs a) (ps_matrix O qs b) = mmul O (ps_matrix O qs b) (ps_matrix O qs a))
    /\ (ps_commutes (pm a) (pm b) = false ->
       mmul O (ps_matrix O qs a) (ps_matrix O qs b) = mscale O (- z1) (mmul O (ps_matrix O qs b) (ps_matrix O qs a))).
  Proof.
    intros Hqs Ha HIa HIb. rewrite (ps_commutes_spec qs (pm a) (pm b) Hqs Ha HIa HIb).
    apply dense_commute_iff. rewrite !letters_length. reflexivity.
  Qed.

  (* ----- D3: squares, inverses (P ** -1), qubit remapping ----- *)
  Lemma zip_phase_self l : zip_phase l l = 0%Z.
  Proof. induction l as [|x l IH]; simpl; [reflexivity|]. rewrite IH. destruct x; reflexivity. Qed.
  Lemma zip_xor_self l : zip_xor l l = map (fun _ => pI) l.
  Proof. induction l as [|x l IH]; simpl; [reflexivity|]. rewrite IH, pxor_self. reflexivity. Qed.
  Lemma map_const_letters qs m : map (fun _ : pauli => pI) (letters qs m) = map (fun _ : qid => pI) qs.
  Proof. unfold letters. rewrite map_map. reflexivity. Qed.
  Theorem ps_same_letters_mul qs c c' m :
    mmul O (ps_matrix O qs (mkP c m)) (ps_matrix O qs (mkP c' m)) = mscale O (c * c') (id_matrix qs).
  Proof.
    unfold ps_matrix, id_matrix. simpl. rewrite dense_mul_matrix by reflexivity.
    rewrite zip_phase_self, zip_xor_self, map_const_letters, dense_matrix_scale. apply dense_matrix_coef_ext. rewrite ipow_0. ring.
  Qed.
  (* P . P = c^2 I;  (c^-1 letters) is the two-sided inverse of (c letters) *)
  Theorem ps_square qs (a : pstr) :
    mmul O (ps_matrix O qs a) (ps_matrix O qs a) = mscale O (coef a * coef a) (id_matrix qs).
  Proof. destruct a as [c m]. apply ps_same_letters_mul. Qed.
  Theorem ps_inverse qs c cinv m : c * cinv = z1 ->
    mmul O (ps_matrix O qs (mkP cinv m)) (ps_matrix O qs (mkP c m)) = id_matrix qs
    /\ mmul O (ps_matrix O qs (mkP c m)) (ps_matrix O qs (mkP cinv m)) = id_matrix qs.
  Proof.
    intros H. rewrite !ps_same_letters_mul. unfold id_matrix. rewrite !dense_matrix_scale.
    split; apply dense_matrix_coef_ext; [transitivity (c * cinv); [ring|]|transitivity (c * cinv); [ring|]]; rewrite H; ring.
  Qed.

  Lemma pm_map_keys_get f : forall m m' q q', pm_map_keys f m = Some m' -> assoc f q = Some q' ->
    (forall k, In k (pm_keys m) -> assoc f k = Some q' -> k = q) ->
    pm_get m' q' = pm_get m q.
  Proof.
    induction m as [|[k p] m IH]; intros m' q q' Hm Hq Hinj; simpl in Hm.
    - injection Hm as <-. reflexivity.
    - destruct (assoc f k) as [k'|] eqn:Hk; [|discriminate].
      destruct (pm_map_keys f m) as [r'|] eqn:Hr; [|discriminate]. injection Hm as <-. simpl.
      destruct (Z.eqb_spec k' q') as [->|Hne].
      + rewrite (Hinj k (or_introl eq_refl) Hk), Z.eqb_refl. reflexivity.
      + destruct (Z.eqb_spec k q) as [->|Hkq]; [congruence|].
        apply (IH r' q q' eq_refl Hq). intros k0 Hk0. apply Hinj. right. exact Hk0.
  Qed.
  (* map_qubits: the matrix over the renamed register is the matrix over the old one (renaming injective where it matters) *)
  Theorem ps_map_qubits_sound f qs qs' (a a' : pstr) :
    ps_map_qubits f a = Some a' -> map (assoc f) qs = map Some qs' ->
    (forall k q, In k (pm_keys (pm a)) -> In q qs -> assoc f k = assoc f q -> k = q) ->
    ps_matrix O qs' a' = ps_matrix O qs a.
  Proof.
    unfold ps_map_qubits. destruct (pm_map_keys f (pm a)) as [m'|] eqn:Hm; [|discriminate].
    intros Ha Hqs Hinj. injection Ha as <-. unfold ps_matrix. simpl. f_equal. unfold letters.
    revert qs' Hqs. induction qs as [|q qs IH]; intros [|q' qs'] Hqs; try discriminate; [reflexivity|].
    simpl in Hqs. injection Hqs as Hq Hqs. simpl. f_equal.
    - apply (pm_map_keys_get f (pm a) m' q q' Hm Hq). intros k Hk Hkq. apply Hinj; [exact Hk|left; reflexivity|congruence].
    - apply IH; [|exact Hqs]. intros k q0 Hk Hq0. apply Hinj; [exact Hk|right; exact Hq0].
  Qed.

  (* ----- dense strings ----- *)
  Lemma pm_get_of_dense_notin qs l q : ~ In q qs -> pm_get (pm_of_dense qs l) q = pI.
  Proof.
    revert l. induction qs as [|k qs IH]; intros [|x l] H; simpl; try reflexivity.
    unfold pm_of_dense. simpl. destruct (is_pI x); simpl.
    - apply IH. intros Hin. apply H. right. exact Hin.
    - destruct (Z.eqb_spec k q) as [->|Hne]; [exfalso; apply H; left; reflexivity|]. apply IH. intros Hin. apply H. right. exact Hin.
  Qed.
  Lemma letters_of_dense qs l : NoDup qs -> length qs = length l -> letters qs (pm_of_dense qs l) = l.
  Proof.
    revert l. induction qs as [|k qs IH]; intros [|x l] Hnd Hlen; try discriminate; [reflexivity|].
    inversion Hnd as [|? ? Hk Hnd']. subst. simpl in Hlen. injection Hlen as Hlen.
    unfold letters, pm_of_dense. simpl. destruct (is_pI x) eqn:Hx; simpl.
    - apply is_pI_true in Hx. subst x. f_equal; [apply pm_get_of_dense_notin; exact Hk|apply IH; assumption].
    - rewrite Z.eqb_refl. f_equal. transitivity (letters qs (pm_of_dense qs l)); [|apply IH; assumption].
      unfold letters. apply map_ext_in. intros q Hq.
      destruct (Z.eqb_spec k q) as [->|Hne]; [contradiction|reflexivity].
  Qed.
  (* DensePauliString.on / sparse, PauliString.dense: same matrix over the given qubit order *)
  Theorem ds_on_sound qs (d : dstr) (p : pstr) : NoDup qs -> ds_on qs d = Some p -> ps_matrix O qs p = ds_matrix O d.
  Proof.
    intros Hnd. unfold ds_on. destruct (Nat.eqb_spec (length qs) (length (dmask d))) as [Hlen|]; [|discriminate].
    intros H. injection H as <-. unfold ps_matrix, ds_matrix. simpl. rewrite letters_of_dense by assumption. reflexivity.
  Qed.
  Theorem ps_dense_sound qs (a : pstr) (d : dstr) : ps_dense qs a = Some d -> ds_matrix O d = ps_matrix O qs a.
  Proof. unfold ps_dense. destruct (forallb _ _); [|discriminate]. intros H. injection H as <-. reflexivity. Qed.

  Lemma pad_length n l : length (pad n l) = Nat.max n (length l).
  Proof. revert l. induction n as [|n IH]; intros [|x l]; simpl; try reflexivity; rewrite IH; simpl; lia. Qed.
  Lemma zip_xor_pad_nil a : zip_xor a (pad (length a) []) = a.
  Proof. induction a as [|x a IH]; simpl; [reflexivity|]. rewrite pxor_I_r, IH. reflexivity. Qed.
  Lemma zip_xor_nil_pad b : zip_xor (pad (length b) []) b = b.
  Proof. induction b as [|y b IH]; simpl; [reflexivity|]. rewrite pxor_I_l, IH. reflexivity. Qed.
  Lemma zip_phase_pad_nil a : zip_phase a (pad (length a) []) = 0%Z.
  Proof. induction a as [|x a IH]; simpl; [reflexivity|]. rewrite mul_phase_I_r, IH. reflexivity. Qed.
  Lemma zip_phase_nil_pad b : zip_phase (pad (length b) []) b = 0%Z.
  Proof. induction b as [|y b IH]; simpl; [reflexivity|]. rewrite IH. destruct y; reflexivity. Qed.
  Lemma pad_0 l : pad 0 l = l. Proof. destruct l; reflexivity. Qed.
  Lemma mask_xor_pad : forall a b, mask_xor a b = zip_xor (pad (length b) a) (pad (length a) b).
  Proof.
    induction a as [|x a IH]; intros b.
    - simpl length. rewrite pad_0, zip_xor_nil_pad. reflexivity.
    - destruct b as [|y b].
      + simpl length. rewrite pad_0. change (S (length a)) with (length (x :: a)). rewrite zip_xor_pad_nil. reflexivity.
      + simpl. rewrite IH. reflexivity.
  Qed.
  Lemma vphase_pad : forall a b, vphase a b = zip_phase (pad (length b) a) (pad (length a) b).
  Proof.
    induction a as [|x a IH]; intros b.
    - simpl length. rewrite pad_0, zip_phase_nil_pad. reflexivity.
    - destruct b as [|y b].
      + simpl length. rewrite pad_0. change (S (length a)) with (length (x :: a)). rewrite zip_phase_pad_nil. reflexivity.
      + simpl. rewrite IH, vphase1_mul. reflexivity.
  Qed.
  (* DensePauliString.__mul__: masks of different length are zero-padded, the shorter operand acts as ... (x) I *)
  Theorem dense_mul_sound (a b : dstr) :
    ds_matrix O (ds_mul O a b)
    = mmul O (dense_matrix O (dcoef a) (pad (length (dmask b)) (dmask a)))
             (dense_matrix O (dcoef b) (pad (length (dmask a)) (dmask b))).
  Proof.
    unfold ds_matrix, ds_mul. simpl. rewrite dense_mul_matrix by (rewrite !pad_length; lia).
    rewrite ipow_land, mask_xor_pad, vphase_pad. reflexivity.
  Qed.
  Lemma pad_same n l : n = length l -> pad n l = l.
  Proof. intros ->. induction l as [|x l IH]; simpl; [reflexivity|]. rewrite IH. reflexivity. Qed.
  Corollary dense_mul_sound_eqlen (a b : dstr) : length (dmask a) = length (dmask b) ->
    ds_matrix O (ds_mul O a b) = mmul O (ds_matrix O a) (ds_matrix O b).
  Proof. intros H. rewrite dense_mul_sound, !pad_same by congruence. reflexivity. Qed.
  Lemma pad_short : forall n l, (n <= length l)%nat -> pad n l = l.
  Proof. induction n as [|n IH]; intros [|x l] H; simpl in *; try reflexivity; [lia|]. rewrite IH by lia. reflexivity. Qed.
  (* MutableDensePauliString.__imul__ *)
  Theorem dense_imul_sound (a b r : dstr) : ds_imul O a b = Some r ->
    ds_matrix O r = mmul O (ds_matrix O a) (dense_matrix O (dcoef b) (pad (length (dmask a)) (dmask b))).
  Proof.
    unfold ds_imul. destruct (Nat.ltb_spec (length (dmask a)) (length (dmask b))) as [|Hle]; [discriminate|].
    intros H. injection H as <-. unfold ds_matrix. simpl.
    rewrite dense_mul_matrix by (rewrite pad_length; lia).
    rewrite ipow_land, mask_xor_pad, vphase_pad, (pad_short _ _ Hle). apply dense_matrix_coef_ext. ring.
  Qed.
  Theorem ds_scale_sound (a : dstr) c : ds_matrix O (ds_scale O a c) = mscale O c (ds_matrix O a).
  Proof. unfold ds_matrix, ds_scale. simpl. rewrite dense_matrix_scale. apply dense_matrix_coef_ext. ring. Qed.
  Theorem ds_neg_sound (a : dstr) : ds_matrix O (ds_neg O a) = mscale O (- z1) (ds_matrix O a).
  Proof. unfold ds_matrix, ds_neg. simpl. rewrite dense_matrix_scale. apply dense_matrix_coef_ext. ring. Qed.

  (* ----- D3: PauliSum as a finitely supported linear combination; +, -, scalar, * are matrix homomorphisms ----- *)
  Lemma map_const_repeat {A B} (c : B) (l : list A) : map (fun _ => c) l = repeat c (length l).
  Proof. induction l; simpl; congruence. Qed.
  Lemma bits_length n : length (bits n) = Nat.pow 2 n.
  Proof. induction n as [|n IH]; simpl; [reflexivity|]. rewrite app_length, !map_length, IH. lia. Qed.
  Lemma mzero_tab n : mzero O (Nat.pow 2 n) (Nat.pow 2 n) = tabm (bits n) (fun _ _ => z0).
  Proof.
    unfold mzero, tabm. rewrite <- bits_length.
    rewrite (map_ext _ (fun _ => repeat z0 (length (bits n)))) by (intros; apply map_const_repeat).
    rewrite map_const_repeat. reflexivity.
  Qed.
  Definition psum_entry (qs : list qid) (s : psum) (r c : list bool) : K :=
    ksum O (map (fun e => snd e * pl_entry (letters qs (fst e)) r c) s).
  Lemma psum_matrix_tab qs s : psum_matrix O qs s = tabm (bits (length qs)) (psum_entry qs s).
  Proof.
    induction s as [|e s IH]; simpl.
    - rewrite mzero_tab. apply tabm_ext. intros; reflexivity.
    - rewrite IH. unfold ps_matrix. simpl. rewrite dense_matrix_tab, letters_length, madd_tabm.
      apply tabm_ext. intros r c. reflexivity.
  Qed.
  Lemma pm_eqb_eq : forall a b, pm_eqb a b = true -> a = b.
  Proof.
    unfold pm_eqb. induction a as [|[k p] a IH]; intros [|[k' p'] b] H; try discriminate; [reflexivity|].
    apply andb_prop in H. destruct H as [H Hr]. apply andb_prop in H. destruct H as [Hk Hp].
    apply Z.eqb_eq in Hk. subst k'. assert (p = p') by (destruct p, p'; try discriminate; reflexivity). subst p'.
    f_equal. apply IH. exact Hr.
  Qed.
  Lemma psum_entry_ld_add qs key c s r c' :
    psum_entry qs (ld_add O key c s) r c' = c * pl_entry (letters qs key) r c' + psum_entry qs s r c'.
  Proof.
    unfold psum_entry. induction s as [|[k x] s IH]; simpl.
    - unfold ksum. simpl. ring.
    - destruct (pm_eqb k key) eqn:He.
      + apply pm_eqb_eq in He. subst k. unfold ksum. simpl. ring.
      + unfold ksum in *. simpl. rewrite IH. ring.
  Qed.
  Lemma psum_entry_fold_add qs (f : K -> K) : forall b a r c,
    psum_entry qs (fold_left (fun s e => ld_add O (fst e) (f (snd e)) s) b a) r c
    = psum_entry qs a r c + ksum O (map (fun e => f (snd e) * pl_entry (letters qs (fst e)) r c) b).
  Proof.
    induction b as [|e b IH]; intros a r c; simpl.
    - unfold ksum. simpl. ring.
    - rewrite IH, psum_entry_ld_add. unfold ksum. simpl. ring.
  Qed.
  Theorem psum_add_sound qs a b : psum_matrix O qs (psum_add O a b) = madd O (psum_matrix O qs a) (psum_matrix O qs b).
  Proof.
    rewrite !psum_matrix_tab, madd_tabm. apply tabm_ext. intros r c. unfold psum_add.
    rewrite (psum_entry_fold_add qs (fun x => x)). reflexivity.
  Qed.
  Theorem psum_neg_sound qs a : psum_matrix O qs (psum_neg O a) = mscale O (- z1) (psum_matrix O qs a).
  Proof.
    rewrite !psum_matrix_tab, mscale_tabm. apply tabm_ext. intros r c. unfold psum_neg, psum_entry.
    rewrite map_map. simpl. rewrite <- ksum_scale. apply ksum_ext. intros; ring.
  Qed.
  Theorem psum_sub_sound qs a b :
    psum_matrix O qs (psum_sub O a b) = madd O (psum_matrix O qs a) (mscale O (- z1) (psum_matrix O qs b)).
  Proof.
    rewrite !psum_matrix_tab, mscale_tabm, madd_tabm. apply tabm_ext. intros r c. unfold psum_sub.
    rewrite (psum_entry_fold_add qs (fun x => - x)). f_equal. unfold psum_entry. rewrite <- ksum_scale. apply ksum_ext. intros; ring.
  Qed.
  Theorem psum_scale_sound qs a c : psum_matrix O qs (psum_scale O a c) = mscale O c (psum_matrix O qs a).
  Proof.
    rewrite !psum_matrix_tab, mscale_tabm. apply tabm_ext. intros r c'. unfold psum_scale, psum_entry.
    rewrite map_map. simpl. rewrite <- ksum_scale. apply ksum_ext. intros; ring.
  Qed.

  (* sorting a duplicate-free item list does not change any lookup *)
  Lemma pm_insert_keys e m k : In k (pm_keys (pm_insert e m)) <-> k = fst e \/ In k (pm_keys m).
  Proof.
    induction m as [|x m IH]; simpl; [intuition|].
    destruct (fst e <=? fst x)%Z; simpl; [intuition|]. rewrite IH. intuition.
  Qed.
  Lemma pm_get_insert e m q : ~ In (fst e) (pm_keys m) ->
    pm_get (pm_insert e m) q = if (fst e =? q)%Z then snd e else pm_get m q.
  Proof.
    destruct e as [k p]. simpl. induction m as [|[k' p'] m IH]; simpl; intros Hn; [reflexivity|].
    destruct (k <=? k')%Z; simpl; [reflexivity|].
    rewrite IH by (intros H; apply Hn; right; exact H).
    destruct (Z.eqb_spec k' q) as [->|]; [|reflexivity].
    destruct (Z.eqb_spec k q) as [->|]; [exfalso; apply Hn; left; reflexivity|reflexivity].
  Qed.
  Lemma pm_sort_get m : NoDup (pm_keys m) -> (forall q, pm_get (pm_sort m) q = pm_get m q)
                                             /\ (forall k, In k (pm_keys (pm_sort m)) <-> In k (pm_keys m)).
  Proof.
    induction m as [|[k p] m IH]; simpl; intros Hnd; [split; intros; tauto|].
    inversion Hnd as [|? ? Hk Hnd']. subst. destruct (IH Hnd') as [Hg Hkeys]. split.
    - intros q. rewrite pm_get_insert by (simpl; rewrite Hkeys; exact Hk). simpl. rewrite Hg. reflexivity.
    - intros k0. rewrite pm_insert_keys. simpl. rewrite Hkeys. intuition.
  Qed.
  Lemma letters_sort qs m : NoDup (pm_keys m) -> letters qs (pm_sort m) = letters qs m.
  Proof. intros H. unfold letters. apply map_ext. intros q. apply (proj1 (pm_sort_get m H)). Qed.

  Lemma ksum_flat_map {A B} (F : B -> K) (G : A -> list B) l :
    ksum O (map F (flat_map G l)) = ksum O (map (fun a => ksum O (map F (G a))) l).
  Proof.
    induction l as [|a l IH]; simpl; [reflexivity|]. rewrite map_app, ksum_app, IH. reflexivity.
  Qed.
  Lemma ksum_mul {A B} (f : A -> K) (g : B -> K) la lb :
    ksum O (map f la) * ksum O (map g lb) = ksum O (map (fun a => ksum O (map (fun b => f a * g b) lb)) la).
  Proof.
    induction la as [|a la IH]; unfold ksum in *; simpl; [ring|].
    rewrite <- IH. fold (ksum O (map (fun b => f a * g b) lb)). rewrite ksum_scale. unfold ksum. ring.
  Qed.
  Lemma tabm_inj E f g : tabm E f = tabm E g -> forall r c, In r E -> In c E -> f r c = g r c.
  Proof.
    unfold tabm. intros H r c Hr Hc.
    assert (H1 := ext_in_map H r Hr). simpl in H1. exact (ext_in_map H1 c Hc).
  Qed.
  Lemma tabm_ext_in E f g : (forall r c, In r E -> In c E -> f r c = g r c) -> tabm E f = tabm E g.
  Proof. intros H. unfold tabm. apply map_ext_in. intros r Hr. apply map_ext_in. intros c Hc. apply H; assumption. Qed.

  Lemma ps_mul_keys_ok qs (t u : pstr) : keys_ok qs (pm t) -> keys_ok qs (pm u) -> keys_ok qs (pm (ps_mul O t u)).
  Proof.
    intros Ht Hu. unfold ps_mul, ps_make, imul_contents, imul_seq. simpl fold_left.
    apply imul_keys_ok; [exact Ht|]. apply (imul_keys_ok (-1) qs (ps_empty O) u (keys_ok_nil qs)). apply Hu.
  Qed.
  (* entry form of pauli_mul_sound *)
  Lemma ps_mul_entry qs (t u : pstr) r c : NoDup qs -> keys_ok qs (pm u) ->
    In r (bits (length qs)) -> In c (bits (length qs)) ->
    coef (ps_mul O t u) * pl_entry (letters qs (pm (ps_mul O t u))) r c
    = ksum O (map (fun m => (coef t * pl_entry (letters qs (pm t)) r m) * (coef u * pl_entry (letters qs (pm u)) m c))
                  (bits (length qs))).
  Proof.
    intros Hqs Hu Hr Hc. pose proof (pauli_mul_sound qs t u Hqs Hu) as H. unfold ps_matrix in H.
    rewrite !dense_matrix_tab, !letters_length, mmul_tabm in H by apply bits_nonempty.
    exact (tabm_inj _ _ _ H r c Hr Hc).
  Qed.
  Lemma psum_entry_of_terms qs : forall l s0 r c,
    psum_entry qs (fold_left (fun s t => ld_add O (pm_sort (pm t)) (coef t) s) l s0) r c
    = psum_entry qs s0 r c + ksum O (map (fun t => coef t * pl_entry (letters qs (pm_sort (pm t))) r c) l).
  Proof.
    induction l as [|t l IH]; intros s0 r c; simpl.
    - unfold ksum. simpl. ring.
    - rewrite IH, psum_entry_ld_add. unfold ksum. simpl. ring.
  Qed.
  Theorem psum_mul_sound qs a b : NoDup qs -> psum_ok qs a -> psum_ok qs b ->
    psum_matrix O qs (psum_mul O a b) = mmul O (psum_matrix O qs a) (psum_matrix O qs b).
  Proof.
    intros Hqs Ha Hb. rewrite !psum_matrix_tab, mmul_tabm by apply bits_nonempty.
    apply tabm_ext_in. intros r c Hr Hc. unfold psum_mul, psum_of_terms.
    rewrite psum_entry_of_terms. unfold psum_entry at 1. simpl map at 1.
    transitivity (ksum O (map (fun t => ksum O (map (fun u =>
        ksum O (map (fun m => (snd t * pl_entry (letters qs (fst t)) r m) * (snd u * pl_entry (letters qs (fst u)) m c))
                    (bits (length qs)))) b)) a)).
    - unfold ksum at 1. simpl fold_right. rewrite ksum_flat_map.
      transitivity (ksum O (map (fun t => ksum O (map (fun u =>
          coef (ps_mul O (mkP (snd t) (fst t)) (mkP (snd u) (fst u)))
          * pl_entry (letters qs (pm (ps_mul O (mkP (snd t) (fst t)) (mkP (snd u) (fst u))))) r c) b)) a)).
      + unfold psum_terms. rewrite map_map.
        assert (Hz : forall x, z0 + x = x) by (intros; ring). rewrite Hz.
        f_equal. apply map_ext_in. intros t Ht. rewrite !map_map. f_equal. apply map_ext_in. intros u Hu0.
        rewrite letters_sort; [reflexivity|].
        apply (ps_mul_keys_ok qs (mkP (snd t) (fst t)) (mkP (snd u) (fst u))).
        * exact (proj1 (Forall_forall _ _) Ha t Ht).
        * exact (proj1 (Forall_forall _ _) Hb u Hu0).
      + f_equal. apply map_ext_in. intros t Ht. f_equal. apply map_ext_in. intros u Hu0.
        apply (ps_mul_entry qs (mkP (snd t) (fst t)) (mkP (snd u) (fst u)) r c Hqs); try assumption.
        exact (proj1 (Forall_forall _ _) Hb u Hu0).
    - (* exchange the sums: sum_t sum_u sum_m = sum_m (sum_t)(sum_u) *)
      unfold psum_entry.
      rewrite (ksum_ext (fun m => ksum O (map _ a) * ksum O (map _ b))
                        (fun m => ksum O (map (fun t => ksum O (map (fun u =>
                           (snd t * pl_entry (letters qs (fst t)) r m) * (snd u * pl_entry (letters qs (fst u)) m c)) b)) a)))
        by (intros m; apply ksum_mul).
      rewrite (ksum_swap (fun m t => ksum O (map (fun u => (snd t * pl_entry (letters qs (fst t)) r m)
                                                   * (snd u * pl_entry (letters qs (fst u)) m c)) b)) (bits (length qs)) a).
      f_equal. apply map_ext. intros t.
      rewrite (ksum_swap (fun m u => (snd t * pl_entry (letters qs (fst t)) r m) * (snd u * pl_entry (letters qs (fst u)) m c))
                         (bits (length qs)) b). reflexivity.
  Qed.
  (* the ring-homomorphism statement of D3 in one place *)
  Theorem paulisum_ring_hom qs a b c : NoDup qs -> psum_ok qs a -> psum_ok qs b ->
    psum_matrix O qs (psum_add O a b) = madd O (psum_matrix O qs a) (psum_matrix O qs b)
    /\ psum_matrix O qs (psum_sub O a b) = madd O (psum_matrix O qs a) (mscale O (- z1) (psum_matrix O qs b))
    /\ psum_matrix O qs (psum_scale O a c) = mscale O c (psum_matrix O qs a)
    /\ psum_matrix O qs (psum_mul O a b) = mmul O (psum_matrix O qs a) (psum_matrix O qs b).
  Proof.
    intros Hqs Ha Hb. repeat split; [apply psum_add_sound|apply psum_sub_sound|apply psum_scale_sound|apply psum_mul_sound; assumption].
  Qed.

  (* the dense test at the matrix level *)
  Theorem ds_commute_iff ca cb la lb : length la = length lb ->
    (ds_commutes la lb = true ->
       mmul O (dense_matrix O ca la) (dense_matrix O cb lb) = mmul O (dense_matrix O cb lb) (dense_matrix O ca la))
    /\ (ds_commutes la lb = false ->
       mmul O (dense_matrix O ca la) (dense_matrix O cb lb)
       = mscale O (- z1) (mmul O (dense_matrix O cb lb) (dense_matrix O ca la))).
  Proof. intros H. rewrite (ds_commutes_spec la lb H). apply dense_commute_iff. exact H. Qed.

  (* ----- D2, converse: if the matrices commute and 2 ca cb <> 0 then the test says so ----- *)
  Lemma in_bits_of_length : forall n r, length r = n -> In r (bits n).
  Proof.
    induction n as [|n IH]; intros [|x r] H; try discriminate; [left; reflexivity|].
    simpl. apply in_or_app. destruct x; [right|left]; apply in_map; apply IH; simpl in H; lia.
  Qed.
  Definition xbit (p : pauli) : bool := match p with pX | pY => true | _ => false end.
  Definition ybit (p : pauli) : Z := match p with pY => (-1)%Z | _ => 0%Z end.
  Lemma pl_entry_unit l :
    pl_entry l (map (fun _ => false) l) (map xbit l) = ipow O (sumZ (map ybit l)).
  Proof.
    induction l as [|p l IH]; simpl; [reflexivity|]. rewrite IH, ipow_add. destruct p; cbn; ring.
  Qed.
  Theorem dense_commute_conv ca cb la lb : length la = length lb ->
    ca * cb + ca * cb <> z0 ->
    mmul O (dense_matrix O ca la) (dense_matrix O cb lb) = mmul O (dense_matrix O cb lb) (dense_matrix O ca la) ->
    Nat.even (count_anti la lb) = true.
  Proof.
    intros Hlen Hnz Hcomm. destruct (Nat.even (count_anti la lb)) eqn:He; [reflexivity|exfalso].
    pose proof (dense_commute_sign ca cb la lb Hlen) as Hs. rewrite He, <- Hcomm in Hs.
    rewrite dense_mul_matrix, dense_matrix_scale in Hs by exact Hlen.
    rewrite !dense_matrix_tab in Hs.
    set (l := zip_xor la lb) in *. set (c := ca * cb * ipow O (zip_phase la lb)) in *.
    assert (Hr : In (map (fun _ => false) l) (bits (length l))) by (apply in_bits_of_length; apply map_length).
    assert (Hc : In (map xbit l) (bits (length l))) by (apply in_bits_of_length; apply map_length).
    pose proof (tabm_inj _ _ _ Hs _ _ Hr Hc) as He'. cbv beta in He'. rewrite pl_entry_unit in He'.
    apply Hnz.
    assert (Hu : ipow O (sumZ (map ybit l)) * ipow O (- sumZ (map ybit l)) = z1)
      by (rewrite <- ipow_add, Z.add_opp_diag_r; reflexivity).
    assert (Hv : ipow O (zip_phase la lb) * ipow O (- zip_phase la lb) = z1)
      by (rewrite <- ipow_add, Z.add_opp_diag_r; reflexivity).
    transitivity ((c * ipow O (sumZ (map ybit l)) + c * ipow O (sumZ (map ybit l)))
                  * (ipow O (- sumZ (map ybit l)) * ipow O (- zip_phase la lb))).
    - unfold c.
      transitivity ((ca * cb + ca * cb) * (ipow O (zip_phase la lb) * ipow O (- zip_phase la lb))
                    * (ipow O (sumZ (map ybit l)) * ipow O (- sumZ (map ybit l)))); [rewrite Hu, Hv; ring|ring].
    - rewrite He' at 1. ring.
  Qed.
  Theorem pauli_commute_conv qs (a b : pstr) : NoDup qs -> keys_ok qs (pm a) -> no_I (pm a) -> no_I (pm b) ->
    coef a * coef b + coef a * coef b <> z0 ->
    mmul O (ps_matrix O qs a) (ps_matrix O qs b) = mmul O (ps_matrix O qs b) (ps_matrix O qs a) ->
    ps_commutes (pm a) (pm b) = true.
  Proof.
    intros Hqs Ha HIa HIb Hnz Hc. rewrite (ps_commutes_spec qs (pm a) (pm b) Hqs Ha HIa HIb).
    apply (dense_commute_conv (coef a) (coef b)); [rewrite !letters_length; reflexivity|exact Hnz|exact Hc].
  Qed.

  (* ----- D5 (algebraic core): since P.P = I, the operators a I + b P are closed under products, with the group law of
     the eigenvalue pair (a+b on the +1 eigenspace, a-b on the -1 eigenspace); U 0 1 = P ----- *)
  Theorem phasor_algebra l a b a' b' :
    mmul O (lin_ip l a b) (lin_ip l a' b') = lin_ip l (a * a' + b * b') (a * b' + b * a').
  Proof.
    unfold lin_ip. rewrite !dense_matrix_tab, !map_length, !madd_tabm, mmul_tabm by apply bits_nonempty.
    apply tabm_ext. intros r c.
    set (I_ := map (fun _ : pauli => pI) l).
    rewrite (ksum_ext _ (fun m => (a * a') * (pl_entry I_ r m * pl_entry I_ m c) + ((a * b') * (pl_entry I_ r m * pl_entry l m c)
                 + ((b * a') * (pl_entry l r m * pl_entry I_ m c) + (b * b') * (pl_entry l r m * pl_entry l m c)))))
      by (intros; ring).
    rewrite !ksum_plus, !ksum_scale.
    assert (HI : length I_ = length l) by apply map_length.
    rewrite <- HI at 1 2. rewrite (pl_entry_mul I_ I_ r c eq_refl), (pl_entry_mul I_ l r c HI).
    rewrite (pl_entry_mul l I_ r c (eq_sym HI)), (pl_entry_mul l l r c eq_refl).
    rewrite !zip_phase_self, !zip_xor_self. unfold I_.
    rewrite ?zip_phase_I_l, ?zip_phase_I_r.
    rewrite ?zip_xor_I_l, ?zip_xor_I_r by (rewrite ?map_length; reflexivity).
    rewrite ?map_map, ipow_0. ring.
  Qed.
  Lemma lin_ip_P l : lin_ip l z0 z1 = dense_matrix O z1 l.
  Proof.
    unfold lin_ip. rewrite !dense_matrix_tab, map_length, madd_tabm. apply tabm_ext. intros; ring.
  Qed.
End Proofs.

(* ---------- the executable comparison instance Q(i) satisfies the laws the theorems assume ---------- *)
Lemma GQ_PLaws : PLaws GQOps.
Proof.
  constructor.
  - constructor; simpl; intros; repeat match goal with x : GQ |- _ => destruct x end;
      unfold gq_add, gq_mul, gq_sub, gq_opp; simpl; f_equal; ring.
  - simpl. unfold gq_mul, gq_opp. simpl. f_equal; ring.
Qed.

(* the letter <-> matrix dictionary is the working tree's: cirq.unitary of the gate behind each index (full Laws: the
   table entries are written with 1/2 and 1/sqrt2 slots that are zero here) *)
Section LetterMatrix.
  Context {K : Type} (O : Ops K) (L : Laws O).
  Add Ring Kring2 : (law_ring O L).
  Lemma letter_matrix_model p : pauli_mat O p = letter_matrix O (pcode p).
  Proof.
    destruct p; cbv -[kadd kmul kopp ksub kconj k0 k1 ki khalf ks2];
      repeat (apply (f_equal2 cons); [|try reflexivity]); try reflexivity; ring.
  Qed.
End LetterMatrix.

(* D5 in the eigenvalue parametrisation of PauliStringPhasor: phase wn on the -1 eigenspace and wp on the +1 eigenspace of P
   is (wp+wn)/2 I + (wp-wn)/2 P; such operators compose by multiplying the phases (so exponents add: merged_with, __pow__),
   and (wn, wp) = (-1, 1) is P itself.  Needs 1/2, hence the full Laws. *)
Section Phasor.
  Context {K : Type} (O : Ops K) (L : Laws O).
  Add Ring Kring3 : (law_ring O L).
  Infix "+" := (kadd O). Infix "*" := (kmul O). Infix "-" := (ksub O).
  Notation hf := (khalf O).
  Notation phasor_mat := (phasor_mat O).
  Lemma half2' : (k1 O + k1 O) * hf = k1 O.
  Proof. transitivity (hf + hf); [ring | exact (law_half O L)]. Qed.
  Theorem phasor_compose l wn wp wn' wp' :
    mmul O (phasor_mat l wn wp) (phasor_mat l wn' wp') = phasor_mat l (wn * wn') (wp * wp').
  Proof.
    unfold Pauli.phasor_mat. rewrite (phasor_algebra O (PLaws_of_Laws O L)). unfold Pauli.lin_ip.
    f_equal; f_equal.
    - transitivity (((k1 O + k1 O) * hf) * (hf * (wp * wp' + wn * wn'))); [ring|rewrite half2'; ring].
    - transitivity (((k1 O + k1 O) * hf) * (hf * (wp * wp' - wn * wn'))); [ring|rewrite half2'; ring].
  Qed.
  Theorem phasor_minus_one l : phasor_mat l (kopp O (k1 O)) (k1 O) = dense_matrix O (k1 O) l.
  Proof.
    unfold Pauli.phasor_mat. rewrite <- (lin_ip_P O (PLaws_of_Laws O L)). unfold Pauli.lin_ip. f_equal; f_equal.
    - ring.
    - transitivity ((k1 O + k1 O) * hf); [ring|apply half2'].
  Qed.
End Phasor.
