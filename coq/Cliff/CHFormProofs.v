(* C13.D6/D7 (partial) — the CH-form model against the regenerated tables and, exactly in K8 = Q(zeta_8), against the
   reference state-vector semantics: for every circuit of up to 4 gates on one qubit, up to 3 gates on two qubits, up to 2 gates (and three longer circuits) on three
   qubits over generator sets containing every kind of gate of the vocabulary (all effective exponents of X/Y/Z, H, CZ,
   both CX orientations, SWAP, global phases), the model's state_vector() equals the documented matrices applied to
   |0..0>, global phase included.  Amplitude evolution for arbitrary n and circuits is not proved (see DESIGN C13). *)
From Coq Require Import List Bool ZArith Arith.
From VF Require Import Base.RingOps Base.Mat Base.K8 Base.Harness Cliff.Tableau Cliff.TableauSem Cliff.CHForm Cliff.CHFormHarness
  Generated.TableauRules.
Import ListNotations.

(* _H_decompose over its whole domain and _phase at the multiples of 1/4 are the model's functions (exact, in K8) *)
Definition hdec_eqb (a b : option (K8 * bool * bool * bool)) : bool :=
  match a, b with
  | None, None => true
  | Some (w, x, y, z), Some (w', x', y', z') => k8_eqb w w' && Bool.eqb x x' && Bool.eqb y y' && Bool.eqb z z'
  | _, _ => false
  end.
Lemma tbl_hdec_ok :
  length (tbl_hdec K8Ops) = 32 /\
  forallb (fun row => let '((v, y, z, d), out) := row in hdec_eqb (H_decompose K8Ops v y z d) out) (tbl_hdec K8Ops) = true.
Proof. split; vm_compute; reflexivity. Qed.
Lemma tbl_phase_ok :
  forallb (fun row => k8_eqb (snd row) (kpow K8Ops (zeta K8Ops) (Z.to_nat (fst row mod 8)))) (tbl_phase K8Ops) = true.
Proof. vm_compute. reflexivity. Qed.

Definition gens1 : list (cgate * K8) :=
  [(CH_ 4 0, one8); (CZ_ 2 0, one8); (CX_ 2 0, one8); (CY_ 2 0, one8); (CY_ 4 0, one8); (CY_ 6 0, ki K8Ops); (CX_ 6 0, one8);
   (CZ_ 6 0, zeta K8Ops)].
(* a few longer three-qubit circuits (GHZ with phases, swaps of entangled qubits, Y-basis rotations) *)
Definition long3 : list (list (cgate * K8)) :=
  [[(CH_ 4 0, one8); (CCX_ 4 0 1, one8); (CCX_ 4 1 2, one8); (CZ_ 2 2, one8); (CH_ 4 1, one8); (CY_ 2 0, one8)];
   [(CH_ 4 2, one8); (CCX_ 4 2 0, one8); (CSWAP_ 4 0 1, one8); (CX_ 2 1, one8); (CCZ_ 4 1 2, one8); (CH_ 4 0, one8); (CY_ 6 2, one8)];
   [(CX_ 4 0, one8); (CH_ 4 1, one8); (CZ_ 6 1, one8); (CH_ 4 1, one8); (CCX_ 4 1 2, ki K8Ops); (CCZ_ 4 0 2, one8); (CH_ 4 2, one8);
    (CSWAP_ 4 2 1, zeta K8Ops)]].
Definition long_ok : bool :=
  forallb (fun w => match ref_vector 3 w, ch_vector 3 w with Some a, Some b => k8v_eqb a b | _, _ => false end) long3.
Theorem chform_small_ok_partial :
  small_ok 1 gens1 4 = true /\ small_ok 2 gens2 3 = true /\ small_ok 3 gens3 2 = true /\ long_ok = true.
Proof. split; [|split; [|split]]; vm_compute; reflexivity. Qed.
