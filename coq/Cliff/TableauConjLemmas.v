(* C13.D1 — shared lemmas for the conjugation theorems: 1/2, i, 1/sqrt2 identities, zeta = exp(i pi/4) is a unit of
   order 8, closed forms of its powers and of the cos/sin GateSpecs builds from them. *)
From Coq Require Import Ring List ZArith Bool Arith Lia.
From VF Require Import Base.RingOps Base.Mat Gates.GateSpecs Cliff.Tableau Cliff.TableauSem.
Import ListNotations.

Section ConjLemmas.
  Context {K : Type} (O : Ops K) (L : Laws O).
  Add Ring Kring : (law_ring O L).
  Infix "+" := (kadd O). Infix "*" := (kmul O). Infix "-" := (ksub O).
  Notation "- a" := (kopp O a).
  Notation z0 := (k0 O). Notation z1 := (k1 O). Notation hf := (khalf O). Notation ii := (ki O). Notation s2 := (ks2 O).

  Lemma half2 : (z1 + z1) * hf = z1.
  Proof. transitivity (hf + hf); [ring | exact (law_half O L)]. Qed.
  Lemma ii2 : ii * ii = - z1. Proof. exact (law_i O L). Qed.
  Lemma s22 : s2 * s2 = hf. Proof. exact (law_s2 O L). Qed.
  Lemma cancel2 a b : (z1 + z1) * a = (z1 + z1) * b -> a = b.
  Proof. intros H. transitivity (hf * ((z1 + z1) * a)); [ring [half2]|]. rewrite H. ring [half2]. Qed.

  (* zeta is a unit with inverse zetac, and has order dividing 8 *)
  Lemma zeta_unit : zeta O * zetac O = z1.
  Proof. unfold zeta, zetac. apply cancel2. ring [ii2 half2 s22]. Qed.
  Lemma zeta_8 : kpow O (zeta O) 8 = z1.
  Proof. cbv -[kadd kmul kopp ksub kconj k0 k1 ki khalf ks2]. do 4 apply cancel2. ring [ii2 half2 s22]. Qed.

  (* closed forms of the powers of zeta, so that the entries stay small *)
  Definition zs (e : nat) : K :=
    match e with
    | 0 => z1 | 1 => zeta O | 2 => ii | 3 => ii * zeta O
    | 4 => - z1 | 5 => - zeta O | 6 => - ii | _ => - (ii * zeta O)
    end.
  Definition zsc (e : nat) : K :=
    match e with
    | 0 => z1 | 1 => zetac O | 2 => - ii | 3 => - (ii * zetac O)
    | 4 => - z1 | 5 => - zetac O | 6 => ii | _ => ii * zetac O
    end.
  Lemma kpow_zeta : forall e, e < 8 -> kpow O (zeta O) e = zs e /\ kpow O (zetac O) e = zsc e.
  Proof.
    intros e He. do 8 (destruct e as [|e]; [split; cbv -[kadd kmul kopp ksub kconj k0 k1 ki khalf ks2];
      first [ring [ii2 half2 s22] | apply cancel2; ring [ii2 half2 s22] | do 2 apply cancel2; ring [ii2 half2 s22]
            | do 3 apply cancel2; ring [ii2 half2 s22] | do 4 apply cancel2; ring [ii2 half2 s22]]|]).
    exfalso; lia.
  Qed.

  (* cos(pi e/4), sin(pi e/4) as GateSpecs computes them from the unit zeta^e *)
  Definition cs (e : nat) : K :=
    match e with 0 => z1 | 1 => s2 | 2 => z0 | 3 => - s2 | 4 => - z1 | 5 => - s2 | 6 => z0 | _ => s2 end.
  Definition sn (e : nat) : K :=
    match e with 0 => z0 | 1 => s2 | 2 => z1 | 3 => s2 | 4 => z0 | 5 => - s2 | 6 => - z1 | _ => - s2 end.
  Ltac small := first [ring [ii2 half2 s22] | apply cancel2; ring [ii2 half2 s22] | do 2 apply cancel2; ring [ii2 half2 s22]
                      | do 3 apply cancel2; ring [ii2 half2 s22]].
  Lemma cos_sin_zs : forall e, e < 8 ->
    (cosu O (zs e) (zsc e) = cs e /\ sinu O (zs e) (zsc e) = sn e) /\
    (cosu O (zsc e) (zs e) = cs e /\ sinu O (zsc e) (zs e) = - sn e).
  Proof.
    intros e He. do 8 (destruct e as [|e]; [repeat split; cbv -[kadd kmul kopp ksub kconj k0 k1 ki khalf ks2]; small|]).
    exfalso; lia.
  Qed.

End ConjLemmas.
