(* C13.D1 — rule_is_conjugation_G: every local update rule of the tableau is conjugation by the documented
   gate matrix (Gates/GateSpecs.v) at the corresponding half-integer exponent, for every global shift,
   over any commutative ring with i, 1/2, 1/sqrt2 (hence over C).  Finite check per rule: the products are
   computed entrywise and closed by `ring`, as in Gates/GateProofs.v (pieces in TableauConj_*.v). *)
From Coq Require Import Ring List ZArith Bool Arith Lia.
From VF Require Import Base.RingOps Base.Mat Gates.GateSpecs Cliff.Tableau Cliff.TableauSem Cliff.TableauConjLemmas
  Cliff.TableauConj_X Cliff.TableauConj_Y Cliff.TableauConj_Z Cliff.TableauConj_H Cliff.TableauConj_CZ0 Cliff.TableauConj_CZ2 Cliff.TableauConj_CZ4 Cliff.TableauConj_CZ6 Cliff.TableauConj_CX0 Cliff.TableauConj_CX2 Cliff.TableauConj_CX4 Cliff.TableauConj_CX6 Cliff.TableauConj_SWAP0 Cliff.TableauConj_SWAP2 Cliff.TableauConj_SWAP4 Cliff.TableauConj_SWAP6.
Import ListNotations.

Section Conj.
  Context {K : Type} (O : Ops K) (L : Laws O).
  Variables g gc : K.
  Hypothesis U : kmul O g gc = k1 O.

  Theorem rule_is_conjugation_X : forall e, e < 8 -> conj1_ok O (gate_x O e g) (gate_x_inv O e gc) (rule_x (eff e)).
  Proof. exact (conj_X O L g gc U). Qed.
  Theorem rule_is_conjugation_Y : forall e, e < 8 -> conj1_ok O (gate_y O e g) (gate_y_inv O e gc) (rule_y (eff e)).
  Proof. exact (conj_Y O L g gc U). Qed.
  Theorem rule_is_conjugation_Z : forall e, e < 8 -> conj1_ok O (gate_z O e g) (gate_z_inv O e gc) (rule_z (eff e)).
  Proof. exact (conj_Z O L g gc U). Qed.
  (* integer exponents t = e/2, e in {0,2,4,6}: the rule is applied iff t is odd *)
  Theorem rule_is_conjugation_H : forall e, In e evens ->
    conj1_ok O (gate_h O e g) (gate_h_inv O e gc) (fun p => if odd_e e then rule_h p else p).
  Proof. exact (conj_H O L g gc U). Qed.
  Theorem rule_is_conjugation_CZ : forall e, In e evens ->
    conj2_ok O (gate_cz O e g) (gate_cz_inv O e gc) (fun p => if odd_e e then rule_cz p else p).
  Proof.
    intros e He. simpl in He. destruct He as [<-|[<-|[<-|[<-|[]]]]];
      [exact (conj_CZ0 O L g gc U)|exact (conj_CZ2 O L g gc U)|exact (conj_CZ4 O L g gc U)|exact (conj_CZ6 O L g gc U)].
  Qed.
  Theorem rule_is_conjugation_CX : forall e, In e evens ->
    conj2_ok O (gate_cx O e g) (gate_cx_inv O e gc) (fun p => if odd_e e then rule_cx p else p).
  Proof.
    intros e He. simpl in He. destruct He as [<-|[<-|[<-|[<-|[]]]]];
      [exact (conj_CX0 O L g gc U)|exact (conj_CX2 O L g gc U)|exact (conj_CX4 O L g gc U)|exact (conj_CX6 O L g gc U)].
  Qed.
  Theorem rule_is_conjugation_SWAP : forall e, In e evens ->
    conj2_ok O (gate_swap O e g) (gate_swap_inv O e gc) (rule_swap (odd_e e)).
  Proof.
    intros e He. simpl in He. destruct He as [<-|[<-|[<-|[<-|[]]]]];
      [exact (conj_SWAP0 O L g gc U)|exact (conj_SWAP2 O L g gc U)|exact (conj_SWAP4 O L g gc U)|exact (conj_SWAP6 O L g gc U)].
  Qed.
End Conj.
