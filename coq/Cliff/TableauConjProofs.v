(* C13.D1 — rule_is_conjugation_G: every local update rule of the tableau is conjugation by the documented
   gate matrix (Gates/GateSpecs.v) at the corresponding half-integer exponent, for every global shift,
   over any commutative ring with i, 1/2, 1/sqrt2 (hence over C).  Finite check per rule: the products are
   computed entrywise and closed by `ring`, as in Gates/GateProofs.v. *)
From Coq Require Import Ring List ZArith Bool Arith Lia.
From VF Require Import Base.RingOps Base.Mat Gates.GateSpecs Cliff.Tableau Cliff.TableauSem.
Import ListNotations.

Section Conj.
  Context {K : Type} (O : Ops K) (L : Laws O).
  Add Ring Kring : (law_ring O L).
  Infix "+" := (kadd O). Infix "*" := (kmul O). Infix "-" := (ksub O).
  Notation "- a" := (kopp O a).
  Notation z0 := (k0 O). Notation z1 := (k1 O). Notation hf := (khalf O). Notation ii := (ki O). Notation s2 := (ks2 O).

  Lemma half2 : (z1 + z1) * hf = z1.
  Proof. transitivity (hf + hf); [ring | exact (law_half O L)]. Qed.
  Lemma ii2 : ii * ii = - z1. Proof. exact (law_i O L). Qed.
  Lemma s22 : s2 * s2 = hf. Proof. exact (law_s2 O L). Qed.
  Lemma cancel2 a b : (z1 + z1) * a = (z1 + z1) * b -> a = b.
  Proof. intros H. transitivity (hf * ((z1 + z1) * a)); [ring [half2]|]. rewrite H. ring [half2]. Qed.

  (* zeta is a unit with inverse zetac, and has order dividing 8 *)
  Lemma zeta_unit : zeta O * zetac O = z1.
  Proof. unfold zeta, zetac. apply cancel2. ring [ii2 half2 s22]. Qed.
  Lemma zeta_8 : kpow O (zeta O) 8 = z1.
  Proof. cbv -[kadd kmul kopp ksub kconj k0 k1 ki khalf ks2]. do 4 apply cancel2. ring [ii2 half2 s22]. Qed.

  (* closed forms of the powers of zeta, so that the entries stay small *)
  Definition zs (e : nat) : K :=
    match e with
    | 0 => z1 | 1 => zeta O | 2 => ii | 3 => ii * zeta O
    | 4 => - z1 | 5 => - zeta O | 6 => - ii | _ => - (ii * zeta O)
    end.
  Definition zsc (e : nat) : K :=
    match e with
    | 0 => z1 | 1 => zetac O | 2 => - ii | 3 => - (ii * zetac O)
    | 4 => - z1 | 5 => - zetac O | 6 => ii | _ => ii * zetac O
    end.
  Lemma kpow_zeta : forall e, e < 8 -> kpow O (zeta O) e = zs e /\ kpow O (zetac O) e = zsc e.
  Proof.
    intros e He. do 8 (destruct e as [|e]; [split; cbv -[kadd kmul kopp ksub kconj k0 k1 ki khalf ks2];
      first [ring [ii2 half2 s22] | apply cancel2; ring [ii2 half2 s22] | do 2 apply cancel2; ring [ii2 half2 s22]
            | do 3 apply cancel2; ring [ii2 half2 s22] | do 4 apply cancel2; ring [ii2 half2 s22]]|]).
    exfalso; lia.
  Qed.

  (* cos(pi e/4), sin(pi e/4) as GateSpecs computes them from the unit zeta^e *)
  Definition cs (e : nat) : K :=
    match e with 0 => z1 | 1 => s2 | 2 => z0 | 3 => - s2 | 4 => - z1 | 5 => - s2 | 6 => z0 | _ => s2 end.
  Definition sn (e : nat) : K :=
    match e with 0 => z0 | 1 => s2 | 2 => z1 | 3 => s2 | 4 => z0 | 5 => - s2 | 6 => - z1 | _ => - s2 end.
  Ltac small := first [ring [ii2 half2 s22] | apply cancel2; ring [ii2 half2 s22] | do 2 apply cancel2; ring [ii2 half2 s22]
                      | do 3 apply cancel2; ring [ii2 half2 s22]].
  Lemma cos_sin_zs : forall e, e < 8 ->
    (cosu O (zs e) (zsc e) = cs e /\ sinu O (zs e) (zsc e) = sn e) /\
    (cosu O (zsc e) (zs e) = cs e /\ sinu O (zsc e) (zs e) = - sn e).
  Proof.
    intros e He. do 8 (destruct e as [|e]; [repeat split; cbv -[kadd kmul kopp ksub kconj k0 k1 ki khalf ks2]; small|]).
    exfalso; lia.
  Qed.

  Variables g gc : K.
  Hypothesis U : g * gc = z1.

  Ltac split_list :=
    repeat match goal with
           | |- (_ :: _) = (_ :: _) => apply (f_equal2 cons)
           | |- @nil _ = @nil _ => reflexivity
           end.
  Ltac fin := first [ ring | ring [U ii2 half2 s22]
          | apply cancel2; ring [U ii2 half2 s22]
          | do 2 apply cancel2; ring [U ii2 half2 s22]
          | do 3 apply cancel2; ring [U ii2 half2 s22]
          | do 4 apply cancel2; ring [U ii2 half2 s22] ].
  Ltac mat_eq := cbv -[kadd kmul kopp ksub kconj k0 k1 ki khalf ks2]; split_list; fin.
  (* replace zeta^e and the cos/sin built from it by their closed forms, then compute *)
  Ltac gate_eq e :=
    unfold gate_x, gate_y, gate_z, gate_h, gate_cz, gate_cx, gate_swap,
           gate_x_inv, gate_y_inv, gate_z_inv, gate_h_inv, gate_cz_inv, gate_cx_inv, gate_swap_inv,
           spec_CXPow, spec_CZPow, spec_SwapPow, spec_XPow, spec_YPow, spec_ZPow, spec_HPow;
    rewrite (proj1 (kpow_zeta e ltac:(lia))), (proj2 (kpow_zeta e ltac:(lia)));
    cbv zeta;
    rewrite ?(proj1 (proj1 (cos_sin_zs e ltac:(lia)))), ?(proj2 (proj1 (cos_sin_zs e ltac:(lia)))),
            ?(proj1 (proj2 (cos_sin_zs e ltac:(lia)))), ?(proj2 (proj2 (cos_sin_zs e ltac:(lia))));
    repeat split; try (intros p; first [destruct p as [[[|] [|]] [|]] | destruct p as [[[[[|] [|]] [|]] [|]] [|]]]); mat_eq.
  (* what is proved of a gate G with claimed inverse Ginv and local rule f: G P = f(P) G, G P Ginv = f(P), G Ginv = 1 *)
  Definition conj1_ok (G Ginv : matrix) (f : loc1 -> loc1) : Prop :=
    (forall p, mmul O G (pms1 O p) = mmul O (pms1 O (f p)) G) /\
    (forall p, mmul O (mmul O G (pms1 O p)) Ginv = pms1 O (f p)) /\
    mmul O G Ginv = mid O 2.
  Definition conj2_ok (G Ginv : matrix) (f : loc2 -> loc2) : Prop :=
    (forall p, mmul O G (pms2 O p) = mmul O (pms2 O (f p)) G) /\
    (forall p, mmul O (mmul O G (pms2 O p)) Ginv = pms2 O (f p)) /\
    mmul O G Ginv = mid O 4.

  Theorem rule_is_conjugation_X : forall e, e < 8 -> conj1_ok (gate_x O e g) (gate_x_inv O e gc) (rule_x (eff e)).
  Proof.
    intros e He. assert (H8 := He). do 8 (destruct e as [|e]; [match goal with |- conj1_ok (_ _ ?n _) _ _ => gate_eq n end|]). exfalso; lia.
  Qed.
  Theorem rule_is_conjugation_Y : forall e, e < 8 -> conj1_ok (gate_y O e g) (gate_y_inv O e gc) (rule_y (eff e)).
  Proof.
    intros e He. assert (H8 := He). do 8 (destruct e as [|e]; [match goal with |- conj1_ok (_ _ ?n _) _ _ => gate_eq n end|]). exfalso; lia.
  Qed.
  Theorem rule_is_conjugation_Z : forall e, e < 8 -> conj1_ok (gate_z O e g) (gate_z_inv O e gc) (rule_z (eff e)).
  Proof.
    intros e He. assert (H8 := He). do 8 (destruct e as [|e]; [match goal with |- conj1_ok (_ _ ?n _) _ _ => gate_eq n end|]). exfalso; lia.
  Qed.
  (* integer exponents t = e/2, e in {0,2,4,6}: the rule is applied iff t is odd *)
  Definition evens : list nat := [0; 2; 4; 6].
  Theorem rule_is_conjugation_H : forall e, In e evens ->
    conj1_ok (gate_h O e g) (gate_h_inv O e gc) (fun p => if odd_e e then rule_h p else p).
  Proof.
    intros e He. simpl in He.
    repeat (destruct He as [<-|He]; [match goal with |- conj1_ok (_ _ ?n _) _ _ => gate_eq n end|]). destruct He.
  Qed.
  Theorem rule_is_conjugation_CZ : forall e, In e evens ->
    conj2_ok (gate_cz O e g) (gate_cz_inv O e gc) (fun p => if odd_e e then rule_cz p else p).
  Proof.
    intros e He. simpl in He.
    repeat (destruct He as [<-|He]; [match goal with |- conj2_ok (_ _ ?n _) _ _ => gate_eq n end|]). destruct He.
  Qed.
  Theorem rule_is_conjugation_CX : forall e, In e evens ->
    conj2_ok (gate_cx O e g) (gate_cx_inv O e gc) (fun p => if odd_e e then rule_cx p else p).
  Proof.
    intros e He. simpl in He.
    repeat (destruct He as [<-|He]; [match goal with |- conj2_ok (_ _ ?n _) _ _ => gate_eq n end|]). destruct He.
  Qed.
  Theorem rule_is_conjugation_SWAP : forall e, In e evens ->
    conj2_ok (gate_swap O e g) (gate_swap_inv O e gc) (rule_swap (odd_e e)).
  Proof.
    intros e He. simpl in He.
    repeat (destruct He as [<-|He]; [match goal with |- conj2_ok (_ _ ?n _) _ _ => gate_eq n end|]). destruct He.
  Qed.
End Conj.
