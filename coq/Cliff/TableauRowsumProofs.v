(* C13.D3 (support) — _rowsum multiplies rows: for every pair of commuting signed Pauli rows on one and two qubits
   (all 64 resp. 1024 pairs of the regenerated _rowsum tables), the matrix of rowsum h1 h2 is the product of the
   matrices of h1 and h2; anticommuting pairs are exactly those where the code's phase sum is odd.  Exact, in K8. *)
From Coq Require Import List Bool ZArith Arith.
From VF Require Import Base.RingOps Base.Mat Base.K8 Base.Harness Gates.GateSpecs Cliff.Tableau Cliff.TableauSem Cliff.CliffGroup.
Import ListNotations.

Definition row_mat (h : prow) : matrix (K:=K8) :=
  match rbits h with
  | [p] => pms1 K8Ops (fst p, snd p, rsign h)
  | [p; q] => pms2 K8Ops (fst p, snd p, fst q, snd q, rsign h)
  | _ => []
  end.
Definition commute_bits (a b : list pbit) : bool :=
  negb (fold_right xorb false (map (fun pq => xorb (fst (fst pq) && snd (snd pq)) (snd (fst pq) && fst (snd pq))) (combine a b))).
Definition phase_sum (h1 h2 : prow) : Z := (2 * Z.b2z (rsign h1) + 2 * Z.b2z (rsign h2) + g_sum (rbits h2) (rbits h1))%Z.
Definition rowsum_pair_ok (t : prow * prow * prow) : bool :=
  let '(h1, h2, _) := t in
  if commute_bits (rbits h1) (rbits h2)
  then Z.even (phase_sum h1 h2) && k8m_eqb (row_mat (rowsum h1 h2)) (mmul K8Ops (row_mat h1) (row_mat h2))
       && k8m_eqb (row_mat (rowsum h1 h2)) (mmul K8Ops (row_mat h2) (row_mat h1))
  else Z.odd (phase_sum h1 h2).

Theorem rowsum_is_product_small :
  forallb rowsum_pair_ok (model_rowsum 1) = true /\ forallb rowsum_pair_ok (model_rowsum 2) = true.
Proof. split; vm_compute; reflexivity. Qed.
