(* C13 — checker used by the correspondence run: replays a recorded implementation trace through the model
   (definitions only).  A trace is the initial tableau and, per step, the operation and what the
   implementation produced; the model is applied to the implementation's previous tableau, so a
   disagreement is localised to one step. *)
From Coq Require Import List Bool ZArith Arith Uint63.
From VF Require Import Cliff.Tableau Cliff.TableauPad.
Import ListNotations.

Inductive step :=
| SG (g : cgate) (after : option tableau)                      (* an apply_* call / act_on of a primitive gate *)
| SM (q : nat) (bit : bool) (after : tableau) (outcome random : bool)     (* _measure, advancing *)
| SMalt (q : nat) (bit : bool) (after : tableau) (outcome random : bool)  (* the other branch, not advancing *)
| SMsame (q : nat) (outcome : bool)      (* _measure drew no random bit and left the tableau as it was *)
| SThen (second after : tableau)                               (* self.then(second) *)
| SInv (after : tableau)                                       (* self.inverse(), not advancing *)
| SValid (v : bool)                                            (* _validate() *)
| SCG (kq : nat) (gate : tableau) (axes : list nat) (after : tableau)   (* act_on of a kq-qubit CliffordGate object on axes *)
| SSkip (after : tableau).                                     (* an operation outside the model: resynchronise *)

Definition measure_ok (n q : nat) (bit : bool) (cur after : tableau) (outcome random : bool) : bool :=
  let '(t', o, rd) := measure n q bit cur in
  tab_eqb t' after && Bool.eqb o outcome && Bool.eqb rd random.

(* index of the first disagreeing step, or None *)
Fixpoint run_steps (n : nat) (cur : tableau) (steps : list step) (k : nat) : option nat :=
  match steps with
  | [] => None
  | SG g after :: r =>
      if otab_eqb (apply_gate g cur) after
      then run_steps n (match after with Some t => t | None => cur end) r (S k) else Some k
  | SM q bit after o rd :: r => if measure_ok n q bit cur after o rd then run_steps n after r (S k) else Some k
  | SMalt q bit after o rd :: r => if measure_ok n q bit cur after o rd then run_steps n cur r (S k) else Some k
  | SMsame q o :: r => if measure_ok n q false cur cur o false then run_steps n cur r (S k) else Some k
  | SThen second after :: r => if tab_eqb (tab_then n cur second) after then run_steps n after r (S k) else Some k
  | SInv after :: r => if tab_eqb (tab_inverse n cur) after then run_steps n cur r (S k) else Some k
  | SValid v :: r => if Bool.eqb (tab_validate n cur) v then run_steps n cur r (S k) else Some k
  | SCG kq gate axes after :: r =>
      if otab_eqb (act_cgate kq n axes gate cur) (Some after) then run_steps n after r (S k) else Some k
  | SSkip after :: r => run_steps n after r (S k)
  end.

Definition trace := (nat * tableau * list step)%type.
(* (trace index, step index) of every disagreement *)
Fixpoint bad_traces (ts : list trace) (i : nat) : list (nat * nat) :=
  match ts with
  | [] => []
  | (n, t0, steps) :: r =>
      match run_steps n t0 steps 0 with
      | None => bad_traces r (S i)
      | Some k => (i, k) :: bad_traces r (S i)
      end
  end.

(* compact literals for the generated cases files: digit 0 = I, 1 = Z, 2 = X, 3 = Y *)
Definition pb (d : nat) : pbit :=
  match d with 0 => (false, false) | 1 => (false, true) | 2 => (true, false) | _ => (true, true) end.
Definition R (l : list nat) (s : bool) : prow := mkRow (map pb l) s.

(* packed literals: bit k of the tableau (row-major; per row the pairs (z_j, x_j) for j < n, then the sign) is bit k mod 60
   of the k/60-th primitive integer.  One literal per 60 bits keeps the generated cases files cheap to elaborate. *)
Definition tbit (cs : list int) (k : nat) : bool :=
  Uint63.bit (nth (k / 60) cs 0%uint63) (Uint63.of_Z (Z.of_nat (k mod 60))).
Definition TI (n : nat) (cs : list int) : tableau :=
  map (fun i => mkRow (map (fun j => (tbit cs (i * (2 * n + 1) + 2 * j + 1), tbit cs (i * (2 * n + 1) + 2 * j))) (seq 0 n))
                      (tbit cs (i * (2 * n + 1) + 2 * n))) (seq 0 (2 * n)).
