(* C13 — kron / reindex of the CH form mean what the simulators use them for (partial, exact in K8 = Q(zeta_8)):
   for every state reached by a short circuit, every permutation `axes` of its qubits and every basis state y,
   <y| reindex(axes) state> = <y'| state> with y'[axes[i]] = y[i]; and <y1 y2| a.kron(b)> = <y1|a> <y2|b>.
   (Amplitudes for arbitrary n are not proved, see CHFormProofs.v.)  General structural facts about reindex are proved
   for every n: reindex by the identity order is the identity on well-shaped states, and reindex composes. *)
From Coq Require Import List Bool ZArith Arith Lia.
From VF Require Import Base.RingOps Base.Mat Base.K8 Base.Harness Cliff.Tableau Cliff.TableauPad Cliff.CHForm Cliff.CHFormHarness
  Cliff.CHFormProofs Cliff.CHFormJoin.
Import ListNotations.

Definition st1 : list (chst (K:=K8)) := states_of 1 (words gens1 2).
Definition st1s : list (chst (K:=K8)) := states_of 1 (words gens1 1).
Definition st2 : list (chst (K:=K8)) := states_of 2 (words gens2 2).
Definition st2s : list (chst (K:=K8)) := states_of 2 (words gens2 1).
Definition st3 : list (chst (K:=K8)) := states_of 3 (words gens3 2 ++ long3).

Theorem chform_reindex_ok_partial :
  length st2 = 211 /\ length st3 = 160 /\ reindex_ok 2 st2 = true /\ reindex_ok 3 st3 = true.
Proof. split; [|split; [|split]]; vm_compute; reflexivity. Qed.

Theorem chform_kron_ok_partial :
  kron_ok 1 1 st1s st1 = true /\ kron_ok 1 2 st1s st2 = true /\ kron_ok 2 1 st2 st1s = true /\ kron_ok 2 2 st2s st2s = true /\
  kron_ok 1 3 st1s st3 = true /\ kron_ok 3 1 st3 st1s = true.
Proof. split; [|split; [|split; [|split; [|split]]]]; vm_compute; reflexivity. Qed.

(* a reindex that is not a gather by `axes` (for instance a scatter, which is the gather by the inverse permutation) is
   told apart by the amplitude condition as soon as the order is a 3-cycle: witness, the third long circuit *)
Definition scatter_reindex (axes : list nat) (c : chst (K:=K8)) : chst (K:=K8) :=
  let inv := map (fun i => match index_of i axes with Some j => j | None => 0 end) (seq 0 (length axes)) in
  ch_reindex inv c.
Theorem chform_reindex_direction_matters :
  exists c y, In c st3 /\
    k8_eqb (ch_amp K8Ops (scatter_reindex [1; 2; 0] c) y) (ch_amp K8Ops c (old_digits 3 [1; 2; 0] y)) = false.
Proof.
  exists (nth 158 st3 (ch_zero K8Ops 3)), [false; false; true]. split; [|vm_compute; reflexivity].
  apply nth_In. vm_compute. lia.
Qed.

(* ---- structural facts for every n ---- *)
Lemma sel_sel {A} (d : A) (a b : list nat) (l : list A) :
  Forall (fun x => x < length a) b -> sel d b (sel d a l) = sel d (sel 0 b a) l.
Proof.
  intros H. unfold sel. rewrite map_map. apply map_ext_in. intros x Hx.
  rewrite Forall_forall in H. specialize (H x Hx).
  rewrite (nth_indep _ d (nth 0 l d)) by (rewrite map_length; exact H).
  rewrite (map_nth (fun a0 => nth a0 l d) a 0 x). reflexivity.
Qed.
Lemma sel_seq {A} (d : A) (l : list A) : sel d (seq 0 (length l)) l = l.
Proof.
  unfold sel. apply nth_ext with (d := d) (d' := d); [rewrite map_length, seq_length; reflexivity|].
  intros k Hk. rewrite map_length, seq_length in Hk.
  rewrite (nth_indep _ d (nth 0 l d)) by (rewrite map_length, seq_length; exact Hk).
  rewrite (map_nth (fun a0 => nth a0 l d) (seq 0 (length l)) 0 k). rewrite seq_nth by exact Hk. reflexivity.
Qed.
Lemma sel_length {A} (d : A) a l : length (sel d a l) = length a.
Proof. unfold sel. apply map_length. Qed.
Lemma sel_map {A B} (f : A -> B) (d : A) (d' : B) (b : list nat) (l : list A) :
  Forall (fun x => x < length l) b -> sel d' b (map f l) = map f (sel d b l).
Proof.
  intros H. unfold sel. rewrite map_map. apply map_ext_in. intros x Hx.
  rewrite Forall_forall in H. specialize (H x Hx).
  rewrite (nth_indep _ d' (f d)) by (rewrite map_length; exact H). apply map_nth.
Qed.
Lemma sel2_sel2 (a b : list nat) (m : bmat) :
  Forall (fun x => x < length a) b -> sel2 b (sel2 a m) = sel2 (sel 0 b a) m.
Proof.
  intros H. unfold sel2.
  rewrite (sel_map (sel false a) [] [] b (sel [] a m)) by (rewrite sel_length; exact H).
  rewrite map_map, (sel_sel [] a b m H). apply map_ext. intros r. apply sel_sel. exact H.
Qed.
(* reindexing twice is reindexing once by the composed order (as create_merged_state relies on) *)
Theorem ch_reindex_compose {K} (a b : list nat) (c : chst (K:=K)) :
  Forall (fun x => x < length a) b -> ch_reindex b (ch_reindex a c) = ch_reindex (sel 0 b a) c.
Proof.
  intros H. unfold ch_reindex. simpl. rewrite !sel2_sel2 by exact H. rewrite !sel_sel by exact H. reflexivity.
Qed.
Definition ch_shape {K} (n : nat) (c : chst (K:=K)) : Prop :=
  length (chF c) = n /\ length (chG c) = n /\ length (chM c) = n /\ length (chgam c) = n /\ length (chv c) = n /\
  length (chs c) = n /\ Forall (fun r => length r = n) (chF c) /\ Forall (fun r => length r = n) (chG c) /\
  Forall (fun r => length r = n) (chM c).
Lemma sel2_seq n (m : bmat) : length m = n -> Forall (fun r => length r = n) m -> sel2 (seq 0 n) m = m.
Proof.
  intros L F. unfold sel2. rewrite <- L at 2. rewrite sel_seq.
  rewrite <- (map_id m) at 2. apply map_ext_in. intros r Hr. rewrite Forall_forall in F. rewrite <- (F r Hr). apply sel_seq.
Qed.
Theorem ch_reindex_id {K} n (c : chst (K:=K)) : ch_shape n c -> ch_reindex (seq 0 n) c = c.
Proof.
  intros (HF & HG & HM & Hg & Hv & Hs & FF & FG & FM). destruct c as [F G M gam v s om]. unfold ch_reindex. simpl in *.
  rewrite !sel2_seq by assumption. rewrite <- Hg at 1. rewrite sel_seq. rewrite <- Hv at 1. rewrite sel_seq.
  rewrite <- Hs at 1. rewrite sel_seq. reflexivity.
Qed.
Example ch_shape_zero : ch_shape 3 (ch_zero K8Ops 3).
Proof. unfold ch_shape. simpl. repeat split; repeat constructor. Qed.
