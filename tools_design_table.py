#!/venv/bin/python
"""Refreshes the numbers of DESIGN.md section 10 (obligation counts from coq/Props/Cxx.v, quick-tier evaluations / wall time from
evidence/Cxx.json, totals of files and lines) in place; the prose columns are left alone."""
import glob, json, re, subprocess
s = open('DESIGN.md').read()
tot = 0
for n in range(1, 21):
    pid = f'C{n:02d}'
    obl = len(re.findall(r'^Print Assumptions', open(f'coq/Props/{pid}.v').read(), re.M))
    tot += obl
    ev = json.load(open(f'evidence/{pid}.json'))
    def find(o, key):
        if isinstance(o, dict):
            if key in o:
                return o[key]
            for v in o.values():
                r = find(v, key)
                if r is not None:
                    return r
        return None
    evals = find(ev, 'evaluations') or find(ev, 'programs') or 0
    wall = ev.get('wall_s') or 0
    m = re.search(rf'^\| {pid} \| ([a-z_]+) \| (\d+) \| (.*) \| ([^|]*) \|$', s, re.M)
    if not m:
        print('row not found', pid); continue
    quick = f'~{int(round(evals, -2)) if evals >= 1000 else evals} evaluations, {int(round(float(wall)))} s' if wall else m.group(4).strip()
    s = s[:m.start()] + f'| {pid} | {m.group(1)} | {obl} | {m.group(3)} | {quick} |' + s[m.end():]
files = glob.glob('coq/**/*.v', recursive=True)
lines = sum(len(open(f).read().split('\n')) for f in files)
s = re.sub(r'\d+ obligations in all \(\d+ Coq files, [\d,]+ lines\)', f'{tot} obligations in all ({len(files)} Coq files, {lines:,} lines)', s)
open('DESIGN.md', 'w').write(s)
print(tot, len(files), lines)
