#!/bin/bash
# Regression over every seeded change: applies each seeded/<id>/patch.diff in its own scratch worktree of /repo HEAD, runs the demo on
# both trees and the check of the property that catches it (meta.json: confirmed.caught_by, default: the seed's own property) with
# VERIF_SEED=${1:-0}; prints one line per seed: CAUGHT (a VIOLATION with a failing input), REPORTED (only no-failing-input-found),
# MISSED, or NOAPPLY.  usage: tools_allseeds.sh [seed] [parallel jobs] [glob of seed ids, default C*]; each line is also appended to
# build/allseeds.log as soon as the seed is done (an interrupted run keeps what it had).
cd "$(dirname "$0")"
SEED="${1:-0}"; JOBS="${2:-5}"; GLOB="${3:-C*}"; mkdir -p build
one() {
  s="$1"; id="$(basename "$s")"
  prop="$(/venv/bin/python -c "import json;m=json.load(open('$s/meta.json'));print((m.get('confirmed') or {}).get('caught_by') or m.get('property') or '$id'[:3])" 2>/dev/null)"
  out="$(./tools_seed.sh "$s" "$prop" "$SEED" 2>&1)"
  if echo "$out" | grep -q "PATCH DOES NOT APPLY"; then echo "$id $prop NOAPPLY" | tee -a build/allseeds.log; return; fi
  demo="$(echo "$out" | grep -c 'demo on changed tree: exit 1')/$(echo "$out" | grep -c 'demo on clean tree: exit 0')"
  if echo "$out" | grep "VIOLATION" | grep -qv "no-failing-input-found"; then echo "$id $prop CAUGHT demo=$demo" | tee -a build/allseeds.log
  elif echo "$out" | grep -q "VIOLATION"; then echo "$id $prop REPORTED demo=$demo" | tee -a build/allseeds.log
  else echo "$id $prop MISSED demo=$demo" | tee -a build/allseeds.log; fi
}
export -f one; export SEED
ls -d seeded/$GLOB | xargs -P "$JOBS" -I{} bash -c 'one {}' | sort
